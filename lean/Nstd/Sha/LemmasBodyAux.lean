import Nstd.Sha.LemmasHmac
/-
  Helper lemmas for the proofs that the TRANSLATED bodies of WriteByteBlock / update / finalize
  (`Nstd/Generated/Sha256Body.lean`) are the hand-written model functions.  The proofs themselves are the
  templates `body_proofs/*.lean.in`; tools/gen_sha.py assembles them into `Nstd/Generated/Sha256BodyProofs.lean`
  (a function whose body could not be translated falls back to the model function and gets `rfl`).
-/
namespace Nstd.Sha
open Nstd.Generated Nstd.Generated.Sha256
set_option linter.unusedSimpArgs false

theorem or_add_disj (x y : UInt32) (h : x &&& y = 0) : x ||| y = x + y := by
  apply UInt32.eq_of_toBitVec_eq
  have h' : x.toBitVec &&& y.toBitVec = 0 := by
    have := congrArg UInt32.toBitVec h
    simpa using this
  simp only [UInt32.toBitVec_or, UInt32.toBitVec_add]
  exact (BitVec.add_eq_or_of_and_eq_zero _ _ h').symm

/-- a zero-extended byte shifted left by `s` has no bit below `s` and none from `s + 8` on -/
theorem byte_shl_bit (x : UInt8) (s : Nat) (hs : s < 32) (i : Nat) (h : i < s ∨ s + 8 ≤ i) :
    (x.toUInt32 <<< (UInt32.ofNat s)).toBitVec.getLsbD i = false := by
  have hm : (UInt32.ofNat s).toBitVec.toNat % 32 = s := by
    simp; omega
  simp only [UInt32.toBitVec_shiftLeft, UInt8.toBitVec_toUInt32, BitVec.getLsbD_shiftLeft, BitVec.getLsbD_setWidth,
    BitVec.shiftLeft_eq', BitVec.toNat_umod]
  simp only [show (32 : BitVec 32).toNat = 32 from rfl, hm]
  rcases h with h | h
  · simp [h]
  · by_cases h32 : i < 32
    · simp
      intro _ _ _
      exact BitVec.getLsbD_of_ge _ _ (by omega)
    · simp [h32]

theorem byte_bit (x : UInt8) (i : Nat) (h : 8 ≤ i) : x.toUInt32.toBitVec.getLsbD i = false := by
  simp only [UInt8.toBitVec_toUInt32, BitVec.getLsbD_setWidth]
  simp
  intro _
  exact BitVec.getLsbD_of_ge _ _ h

theorem and_zero_of_split (x y : UInt32) (s : Nat) (hx : ∀ i, i < s → x.toBitVec.getLsbD i = false)
    (hy : ∀ i, s ≤ i → y.toBitVec.getLsbD i = false) : x &&& y = 0 := by
  apply UInt32.eq_of_toBitVec_eq
  apply BitVec.eq_of_getLsbD_eq
  intro i _
  simp only [UInt32.toBitVec_and, BitVec.getLsbD_and]
  by_cases h : i < s
  · simp [hx i h]
  · simp [hy i (by omega)]

/-- big-endian word assembly written with `|` is the one written with `+` (the four bytes occupy disjoint bit ranges) -/
theorem be_or_eq_add (a b c d : UInt8) :
    ((a.toUInt32 <<< 24) ||| (b.toUInt32 <<< 16) ||| (c.toUInt32 <<< 8) ||| d.toUInt32) =
      (a.toUInt32 <<< 24) + (b.toUInt32 <<< 16) + (c.toUInt32 <<< 8) + d.toUInt32 := by
  have ha : ∀ i, i < 24 ∨ 24 + 8 ≤ i → (a.toUInt32 <<< 24).toBitVec.getLsbD i = false := byte_shl_bit a 24 (by omega)
  have hb : ∀ i, i < 16 ∨ 16 + 8 ≤ i → (b.toUInt32 <<< 16).toBitVec.getLsbD i = false := byte_shl_bit b 16 (by omega)
  have hc : ∀ i, i < 8 ∨ 8 + 8 ≤ i → (c.toUInt32 <<< 8).toBitVec.getLsbD i = false := byte_shl_bit c 8 (by omega)
  have hd := byte_bit d
  have e1 : (a.toUInt32 <<< 24) ||| (b.toUInt32 <<< 16) = (a.toUInt32 <<< 24) + (b.toUInt32 <<< 16) :=
    or_add_disj _ _ (and_zero_of_split _ _ 24 (fun i h => ha i (Or.inl h)) (fun i h => hb i (Or.inr (by omega))))
  have l1 : ∀ i, i < 16 → ((a.toUInt32 <<< 24) ||| (b.toUInt32 <<< 16)).toBitVec.getLsbD i = false := by
    intro i h
    simp only [UInt32.toBitVec_or, BitVec.getLsbD_or, ha i (Or.inl (by omega)), hb i (Or.inl h), Bool.or_false]
  have e2 : (a.toUInt32 <<< 24) ||| (b.toUInt32 <<< 16) ||| (c.toUInt32 <<< 8) =
      ((a.toUInt32 <<< 24) ||| (b.toUInt32 <<< 16)) + (c.toUInt32 <<< 8) :=
    or_add_disj _ _ (and_zero_of_split _ _ 16 l1 (fun i h => hc i (Or.inr (by omega))))
  have l2 : ∀ i, i < 8 → ((a.toUInt32 <<< 24) ||| (b.toUInt32 <<< 16) ||| (c.toUInt32 <<< 8)).toBitVec.getLsbD i = false := by
    intro i h
    simp only [UInt32.toBitVec_or, BitVec.getLsbD_or, ha i (Or.inl (by omega)), hb i (Or.inl (by omega)), hc i (Or.inl h), Bool.or_false]
  have e3 := or_add_disj _ _ (and_zero_of_split _ _ 8 l2 (fun i h => hd i h))
  rw [e3, e2, e1]

theorem u32_succ_toNat (c : UInt32) (h : c.toNat < 64) : (c + 1).toNat = c.toNat + 1 := by
  rw [UInt32.toNat_add]; simp; omega

theorem and63_toNat (c : UInt32) : (c &&& 63).toNat = c.toNat % 64 := by
  rw [UInt32.toNat_and]
  have : (63 : UInt32).toNat = 2 ^ 6 - 1 := by decide
  rw [this, Nat.and_two_pow_sub_one_eq_mod]

/-- iterations the padding loop still needs from position `c` (`c ≤ 64`) -/
def padMeasure (c : Nat) : Nat := if c ≤ 56 then 56 - c else 121 - c

theorem and_dup (b c : Bool) : (b && (b && c)) = (b && c) := by cases b <;> cases c <;> rfl

theorem list16 (d : List UInt32) (hd : d.length = 16) :
    ∃ d0 d1 d2 d3 d4 d5 d6 d7 d8 d9 d10 d11 d12 d13 d14 d15, d = [d0, d1, d2, d3, d4, d5, d6, d7, d8, d9, d10, d11, d12, d13, d14, d15] := by
  match d, hd with
  | [d0, d1, d2, d3, d4, d5, d6, d7, d8, d9, d10, d11, d12, d13, d14, d15], _ =>
    exact ⟨d0, d1, d2, d3, d4, d5, d6, d7, d8, d9, d10, d11, d12, d13, d14, d15, rfl⟩

/-! ### block writes into byte arrays (`Memory::copy` / `Memory::zero` of the translated `hmac`) -/

theorem storeAt_length (a : List UInt8) (off : Nat) (src : List UInt8) :
    (storeAt a off src).length = if off + src.length ≤ a.length then a.length else 0 := by
  unfold storeAt
  split
  · simp; omega
  · rfl

theorem getElem?_storeAt (a : List UInt8) (off : Nat) (src : List UInt8) (i : Nat) :
    (storeAt a off src)[i]? = if off + src.length ≤ a.length then
      (if i < off then a[i]? else if i < off + src.length then src[i - off]? else a[i]?) else none := by
  unfold storeAt
  by_cases h : off + src.length ≤ a.length
  · simp only [h, if_true]
    by_cases h1 : i < off
    · simp only [h1, if_true]
      rw [List.append_assoc, List.getElem?_append_left (by simp; omega)]
      simp [h1]
    · simp only [h1, if_false]
      rw [List.append_assoc, List.getElem?_append_right (by simp; omega)]
      have ht : (List.take off a).length = off := by simp; omega
      rw [ht]
      by_cases h2 : i < off + src.length
      · simp only [h2, if_true]
        rw [List.getElem?_append_left (by omega)]
      · simp only [h2, if_false]
        rw [List.getElem?_append_right (by omega)]
        simp
        congr 1; omega
  · simp [h]


/-- closes equalities between byte arrays built from `storeAt`/`zeroAt`/`++`/`replicate`/`take`, index by index -/
macro "blocks_ext" "[" ts:Lean.Parser.Tactic.simpLemma,* "]" : tactic =>
  `(tactic| (apply List.ext_getElem?; intro i
             simp only [zeroAt, getElem?_storeAt, storeAt_length, List.length_replicate, List.getElem?_append, List.getElem?_replicate,
               List.take_length, List.length_append, List.length_take, Nat.sub_zero, Nat.zero_add, Nat.min_self, Nat.reduceSub, Nat.reduceAdd, $ts,*]
             repeat' split
             all_goals first | rfl | omega | exact List.getElem?_eq_none (by omega) | exact Eq.symm (List.getElem?_eq_none (by omega)) | (congr 1; omega)))


theorem u32_ofNat_toNat (i : Nat) (h : i < 64) : (UInt32.ofNat i).toNat = i := by
  simp [UInt32.toNat_ofNat']; omega

theorem reusable_ok_and (p : Sha) (b : Bool) (hp : Reusable p) (hb : b = true) : Reusable { p with ok := p.ok && b } :=
  ⟨hp.1, hp.2.1, hp.2.2.1, by simp [hp.2.2.2, hb]⟩

theorem take_wr_succ (l hk : List UInt8) (f : UInt8 → UInt8) (i : Nat) (hi : i < l.length) (hh : hk.length = l.length) :
    (wr l i (f (hk.getD i 0))).take (i + 1) ++ (hk.drop (i + 1)).map f = l.take i ++ (hk.drop i).map f := by
  have e1 : (wr l i (f (hk.getD i 0))).take (i + 1) = l.take i ++ [f (hk.getD i 0)] := by
    simp only [wr, hi, if_true]
    rw [List.take_add_one]
    simp [List.take_set_of_le, hi]
  have e2 : hk.drop i = hk.getD i 0 :: hk.drop (i + 1) := by
    have : i < hk.length := by omega
    rw [List.getD_eq_getElem?_getD, List.getElem?_eq_getElem this, Option.getD_some]
    exact List.drop_eq_getElem_cons this
  rw [e1, e2]
  simp

theorem sha_eta (x : Sha) : (⟨x.state, x.count, x.buffer, x.ok⟩ : Sha) = x := rfl

theorem storeAt_full (a src : List UInt8) (h : src.length = a.length) : storeAt a 0 src = src := by
  simp [storeAt, h]

theorem hmacKey_length (key : List UInt8) : (Spec.hmacKey key).length = 64 := by
  unfold Spec.hmacKey Spec.B
  by_cases hl : key.length > 64
  · simp [hl, sha256_length]
  · simp [hl]; omega

end Nstd.Sha
