import Nstd.Sha.LemmasHmac
/-
  Helper lemmas for the proofs that the TRANSLATED bodies of WriteByteBlock / update / finalize
  (`Nstd/Generated/Sha256Body.lean`) are the hand-written model functions.  The proofs themselves are the
  templates `body_proofs/*.lean.in`; tools/gen_sha.py assembles them into `Nstd/Generated/Sha256BodyProofs.lean`
  (a function whose body could not be translated falls back to the model function and gets `rfl`).
-/
namespace Nstd.Sha
open Nstd.Generated Nstd.Generated.Sha256
set_option linter.unusedSimpArgs false

theorem or_add_disj (x y : UInt32) (h : x &&& y = 0) : x ||| y = x + y := by
  apply UInt32.eq_of_toBitVec_eq
  have h' : x.toBitVec &&& y.toBitVec = 0 := by
    have := congrArg UInt32.toBitVec h
    simpa using this
  simp only [UInt32.toBitVec_or, UInt32.toBitVec_add]
  exact (BitVec.add_eq_or_of_and_eq_zero _ _ h').symm

/-- a zero-extended byte shifted left by `s` has no bit below `s` and none from `s + 8` on -/
theorem byte_shl_bit (x : UInt8) (s : Nat) (hs : s < 32) (i : Nat) (h : i < s ∨ s + 8 ≤ i) :
    (x.toUInt32 <<< (UInt32.ofNat s)).toBitVec.getLsbD i = false := by
  have hm : (UInt32.ofNat s).toBitVec.toNat % 32 = s := by
    simp; omega
  simp only [UInt32.toBitVec_shiftLeft, UInt8.toBitVec_toUInt32, BitVec.getLsbD_shiftLeft, BitVec.getLsbD_setWidth,
    BitVec.shiftLeft_eq', BitVec.toNat_umod]
  simp only [show (32 : BitVec 32).toNat = 32 from rfl, hm]
  rcases h with h | h
  · simp [h]
  · by_cases h32 : i < 32
    · simp
      intro _ _ _
      exact BitVec.getLsbD_of_ge _ _ (by omega)
    · simp [h32]

theorem byte_bit (x : UInt8) (i : Nat) (h : 8 ≤ i) : x.toUInt32.toBitVec.getLsbD i = false := by
  simp only [UInt8.toBitVec_toUInt32, BitVec.getLsbD_setWidth]
  simp
  intro _
  exact BitVec.getLsbD_of_ge _ _ h

theorem and_zero_of_split (x y : UInt32) (s : Nat) (hx : ∀ i, i < s → x.toBitVec.getLsbD i = false)
    (hy : ∀ i, s ≤ i → y.toBitVec.getLsbD i = false) : x &&& y = 0 := by
  apply UInt32.eq_of_toBitVec_eq
  apply BitVec.eq_of_getLsbD_eq
  intro i _
  simp only [UInt32.toBitVec_and, BitVec.getLsbD_and]
  by_cases h : i < s
  · simp [hx i h]
  · simp [hy i (by omega)]

/-- big-endian word assembly written with `|` is the one written with `+` (the four bytes occupy disjoint bit ranges) -/
theorem be_or_eq_add (a b c d : UInt8) :
    ((a.toUInt32 <<< 24) ||| (b.toUInt32 <<< 16) ||| (c.toUInt32 <<< 8) ||| d.toUInt32) =
      (a.toUInt32 <<< 24) + (b.toUInt32 <<< 16) + (c.toUInt32 <<< 8) + d.toUInt32 := by
  have ha : ∀ i, i < 24 ∨ 24 + 8 ≤ i → (a.toUInt32 <<< 24).toBitVec.getLsbD i = false := byte_shl_bit a 24 (by omega)
  have hb : ∀ i, i < 16 ∨ 16 + 8 ≤ i → (b.toUInt32 <<< 16).toBitVec.getLsbD i = false := byte_shl_bit b 16 (by omega)
  have hc : ∀ i, i < 8 ∨ 8 + 8 ≤ i → (c.toUInt32 <<< 8).toBitVec.getLsbD i = false := byte_shl_bit c 8 (by omega)
  have hd := byte_bit d
  have e1 : (a.toUInt32 <<< 24) ||| (b.toUInt32 <<< 16) = (a.toUInt32 <<< 24) + (b.toUInt32 <<< 16) :=
    or_add_disj _ _ (and_zero_of_split _ _ 24 (fun i h => ha i (Or.inl h)) (fun i h => hb i (Or.inr (by omega))))
  have l1 : ∀ i, i < 16 → ((a.toUInt32 <<< 24) ||| (b.toUInt32 <<< 16)).toBitVec.getLsbD i = false := by
    intro i h
    simp only [UInt32.toBitVec_or, BitVec.getLsbD_or, ha i (Or.inl (by omega)), hb i (Or.inl h), Bool.or_false]
  have e2 : (a.toUInt32 <<< 24) ||| (b.toUInt32 <<< 16) ||| (c.toUInt32 <<< 8) =
      ((a.toUInt32 <<< 24) ||| (b.toUInt32 <<< 16)) + (c.toUInt32 <<< 8) :=
    or_add_disj _ _ (and_zero_of_split _ _ 16 l1 (fun i h => hc i (Or.inr (by omega))))
  have l2 : ∀ i, i < 8 → ((a.toUInt32 <<< 24) ||| (b.toUInt32 <<< 16) ||| (c.toUInt32 <<< 8)).toBitVec.getLsbD i = false := by
    intro i h
    simp only [UInt32.toBitVec_or, BitVec.getLsbD_or, ha i (Or.inl (by omega)), hb i (Or.inl (by omega)), hc i (Or.inl h), Bool.or_false]
  have e3 := or_add_disj _ _ (and_zero_of_split _ _ 8 l2 (fun i h => hd i h))
  rw [e3, e2, e1]

theorem u32_succ_toNat (c : UInt32) (h : c.toNat < 64) : (c + 1).toNat = c.toNat + 1 := by
  rw [UInt32.toNat_add]; simp; omega

theorem and63_toNat (c : UInt32) : (c &&& 63).toNat = c.toNat % 64 := by
  rw [UInt32.toNat_and]
  have : (63 : UInt32).toNat = 2 ^ 6 - 1 := by decide
  rw [this, Nat.and_two_pow_sub_one_eq_mod]

/-- iterations the padding loop still needs from position `c` (`c ≤ 64`) -/
def padMeasure (c : Nat) : Nat := if c ≤ 56 then 56 - c else 121 - c

theorem and_dup (b c : Bool) : (b && (b && c)) = (b && c) := by cases b <;> cases c <;> rfl

theorem list16 (d : List UInt32) (hd : d.length = 16) :
    ∃ d0 d1 d2 d3 d4 d5 d6 d7 d8 d9 d10 d11 d12 d13 d14 d15, d = [d0, d1, d2, d3, d4, d5, d6, d7, d8, d9, d10, d11, d12, d13, d14, d15] := by
  match d, hd with
  | [d0, d1, d2, d3, d4, d5, d6, d7, d8, d9, d10, d11, d12, d13, d14, d15], _ =>
    exact ⟨d0, d1, d2, d3, d4, d5, d6, d7, d8, d9, d10, d11, d12, d13, d14, d15, rfl⟩

end Nstd.Sha
