import Nstd.Sha.Model
import Nstd.Generated.Sha256U2
import Nstd.Generated.Sha256U1
/-
  The further build configurations of `src/Crypto/Sha256.cpp`: compiled with `-D_SHA256_UNROLL` (`Sha256U1.lean`) or `-D_SHA256_UNROLL2`
  (`Nstd/Generated/Sha256U2.lean`, regenerated from the current sources on every run).  Only `Transform`
  differs between the two configurations (the translator checks that); this file gives the executable entry
  point the model driver uses for the op `xform` after `variant u2`.
-/
namespace Nstd.Sha
open Nstd.Generated

/-- `Transform(state, data)` of the `_SHA256_UNROLL2` configuration, its uninitialised locals (`W[16]`, the
scalar registers `a..h`) started as zeros (irrelevant: `transform_unroll2_eq` in Props.lean quantifies over them) -/
def transformU2 (state data : List UInt32) : List UInt32 × Bool :=
  let s := Sha256U2.Transform data
    { W := List.replicate 16 0, state := state, a := 0, b := 0, c := 0, d := 0, e := 0, f := 0, g := 0, h := 0, ok := true }
  (s.state, s.ok)

/-- `Transform(state, data)` of the `_SHA256_UNROLL` configuration (`Nstd/Generated/Sha256U1.lean`), locals started as zeros -/
def transformU1 (state data : List UInt32) : List UInt32 × Bool :=
  let s := Sha256U1.Transform data { T := List.replicate 8 0, W := List.replicate 16 0, state := state, ok := true }
  (s.state, s.ok)

end Nstd.Sha
