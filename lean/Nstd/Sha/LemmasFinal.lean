import Nstd.Sha.LemmasStream
/-
  `finalize`: the padding loop (zero fill, wrap-around block), the length loop and the digest
  loop produce exactly the FIPS padding of the absorbed message.
-/
namespace Nstd.Sha
open Nstd.Generated

/-- `k` zero bytes written from position `cur` on -/
def zfill : Nat → Nat → List UInt8 → List UInt8
  | 0, _, buf => buf
  | k + 1, cur, buf => zfill k (cur + 1) (Sha256.wr buf cur 0)

theorem zfill_append : ∀ (k : Nat) (pre rest : List UInt8), k ≤ rest.length →
    zfill k pre.length (pre ++ rest) = pre ++ List.replicate k 0 ++ rest.drop k := by
  intro k
  induction k with
  | zero => intro pre rest _; simp [zfill]
  | succ k ih =>
    intro pre rest hk
    cases rest with
    | nil => simp at hk
    | cons r rest' =>
      simp only [List.length_cons] at hk
      have := ih (pre ++ [0]) rest' (by omega)
      simp only [List.length_append, List.length_cons, List.length_nil, Nat.zero_add] at this
      simp only [zfill, wr_mid, this, List.replicate_succ, List.drop_succ_cons]
      simp

theorem padLoop_56 (p : Sha) : padLoop 56 p = (56, p) := by rw [padLoop]; simp

theorem padLoop_64 (p : Sha) :
    padLoop 64 p = padLoop 1 { writeByteBlock p with buffer := Sha256.wr (writeByteBlock p).buffer 0 0 } := by
  rw [padLoop]; simp

theorem padLoop_fill : ∀ (k cur : Nat) (p : Sha), 0 < cur → cur + k ≤ 64 →
    (∀ c, cur ≤ c → c < cur + k → c ≠ 56) →
    padLoop cur p = padLoop (cur + k) { p with buffer := zfill k cur p.buffer } := by
  intro k
  induction k with
  | zero => intro cur p _ _ _; simp [zfill]
  | succ k ih =>
    intro cur p h0 h64 h56
    have hne : cur ≠ 56 := h56 cur (Nat.le_refl _) (by omega)
    have hmod : cur % 64 = cur := Nat.mod_eq_of_lt (by omega)
    rw [padLoop]
    simp only [hne, if_false, hmod, Nat.ne_of_gt h0]
    rw [ih (cur + 1) _ (by omega) (by omega) (fun c h1 h2 => h56 c (by omega) (by omega))]
    simp only [zfill, Nat.add_assoc, Nat.add_comm 1 k]

theorem lenLoop_append : ∀ (n : Nat) (l : UInt64) (pre rest : List UInt8), n ≤ rest.length →
    lenLoop n pre.length l (pre ++ rest) = pre ++ lenBytes n l ++ rest.drop n := by
  intro n
  induction n with
  | zero => intro l pre rest _; simp [lenLoop, lenBytes]
  | succ n ih =>
    intro l pre rest hn
    cases rest with
    | nil => simp at hn
    | cons r rest' =>
      simp only [List.length_cons] at hn
      have := ih (l <<< 8) (pre ++ [(l >>> 56).toUInt8]) rest' (by omega)
      simp only [List.length_append, List.length_cons, List.length_nil, Nat.zero_add] at this
      simp only [lenLoop, wr_mid, this, lenBytes, List.drop_succ_cons]
      simp

/-- the padded tail: what FIPS appends after the complete blocks -/
theorem pad_split (full tail : List UInt8) :
    Spec.pad (full ++ tail) = full ++ (tail ++ [0x80] ++ List.replicate (Spec.zeroBytes (full ++ tail).length) 0 ++
      Spec.be64 (8 * (full ++ tail).length)) := by
  simp [Spec.pad]

end Nstd.Sha

namespace Nstd.Sha
open Nstd.Generated

theorem digestOf_compress (h m : List UInt32) :
    digestOf (Spec.compress h m) = (Spec.compress h m).flatMap Spec.wordBytes := by
  simp only [Spec.compress]; exact digestOf_eq ..

theorem stateReads_ok (h m : List UInt32) :
    ((List.range 8).all fun i => Sha256.inb (Spec.compress h m) i) = true := by
  simp [Spec.compress, Sha256.inb, List.range, List.range.loop]

/-- the tail of `finalize` once the padding loop has stopped at position 56 -/
theorem finalize_tail (htr : TransformOK) (p q : Sha) (pre tl : List UInt8)
    (hpad : padLoop (bufferPos p + 1) { p with buffer := Sha256.wr p.buffer (bufferPos p) 0x80 } = (56, q))
    (hq : q.buffer = pre ++ tl) (hpre : pre.length = 56) (htl : tl.length = 8) (hst : q.state.length = 8)
    (hok : q.ok = true) :
    (finalize p).1 = (Spec.compress q.state (Spec.blockWords (pre ++ lenBytes 8 (p.count <<< 3)))).flatMap Spec.wordBytes
    ∧ Inv [] (finalize p).2 := by
  have hl := lenLoop_append 8 (p.count <<< 3) pre tl (by omega)
  rw [hpre] at hl
  have hd : tl.drop 8 = [] := List.drop_eq_nil_of_le (by omega)
  rw [hd, List.append_nil] at hl
  have hw := writeByteBlock_eq htr { q with buffer := pre ++ lenBytes 8 (p.count <<< 3) } hst
    (by simp [hpre, lenBytes_length])
  simp only [hok] at hw
  unfold finalize
  simp only [hpad, hq, hl, hok, hw, stateReads_ok, Bool.and_true]
  exact ⟨digestOf_compress _ _, inv_reset _ (by simp [hpre, lenBytes_length]) rfl⟩

/-- no bound on the length: `Inv` says that `count` holds the length modulo 2^64, which determines the buffer position and the length field -/
theorem finalize_spec_all (htr : TransformOK) (m : List UInt8) (p : Sha) (h : Inv m p) :
    (finalize p).1 = Spec.sha256 m ∧ Inv [] (finalize p).2 := by
  obtain ⟨full, tail, rest, hm, hfull, hbuf, hsz, hrest, hst, hcnt, hok⟩ := h
  obtain ⟨r, rest', rfl⟩ : ∃ r rest', rest = r :: rest' := by
    cases rest with
    | nil => simp at hrest
    | cons r rest' => exact ⟨r, rest', rfl⟩
  simp only [List.length_cons] at hsz
  have hml : m.length = full.length + tail.length := by rw [hm]; simp
  have hcur : bufferPos p = tail.length := by rw [bufferPos_eq, hcnt]; omega
  have hst8 : p.state.length = 8 := by rw [hst]; exact hashBlocks_length _ _ rfl _ specH0_length
  have hfl : full.length = 64 * (full.length / 64) := by omega
  have hL : lenBytes 8 (p.count <<< 3) = Spec.be64 (8 * m.length) := by
    rw [← be64_wrap, ← hcnt]; exact lenBytes_eq_all _
  have hset : Sha256.wr p.buffer (bufferPos p) 0x80 = (tail ++ [0x80]) ++ rest' := by rw [hcur, hbuf, wr_mid]
  unfold Spec.sha256
  rw [hm, pad_split, hashBlocks_append _ full hfl, ← hst, ← hm]
  by_cases hcase : tail.length + 1 ≤ 56
  · -- one final block
    have hz : Spec.zeroBytes m.length = 55 - tail.length := by unfold Spec.zeroBytes; omega
    have hzf := zfill_append (55 - tail.length) (tail ++ [0x80]) rest' (by omega)
    simp only [List.length_append, List.length_cons, List.length_nil, Nat.zero_add] at hzf
    have hpad : padLoop (bufferPos p + 1) { p with buffer := Sha256.wr p.buffer (bufferPos p) 0x80 } =
        (56, { p with buffer := (tail ++ [0x80] ++ List.replicate (55 - tail.length) 0) ++ rest'.drop (55 - tail.length) }) := by
      rw [hset, hcur, padLoop_fill (55 - tail.length) _ _ (by omega) (by omega) (by intros; omega)]
      have : tail.length + 1 + (55 - tail.length) = 56 := by omega
      rw [this, padLoop_56]
      simp only [hzf]
    have := finalize_tail htr p _ _ _ hpad rfl (by simp; omega) (by simp; omega) hst8 hok
    refine ⟨?_, this.2⟩
    rw [this.1, hL, hz]
    rw [hashBlocks_block (by simp [Spec.be64]; omega)]
  · -- the padding wraps around: two final blocks
    have hz : Spec.zeroBytes m.length = (63 - tail.length) + 56 := by unfold Spec.zeroBytes; omega
    have hr0 : rest'.drop (63 - tail.length) = [] := List.drop_eq_nil_of_le (by omega)
    have hzf := zfill_append (63 - tail.length) (tail ++ [0x80]) rest' (by omega)
    simp only [List.length_append, List.length_cons, List.length_nil, Nat.zero_add, hr0, List.append_nil] at hzf
    -- first block
    obtain ⟨B1, hB1d⟩ : ∃ B1, B1 = tail ++ [0x80] ++ List.replicate (63 - tail.length) 0 := ⟨_, rfl⟩
    rw [← hB1d] at hzf
    have hB1 : B1.length = 64 := by rw [hB1d]; simp; omega
    obtain ⟨b, B1', hB1c⟩ : ∃ b B1', B1 = b :: B1' := by
      cases hB : B1 with
      | nil => rw [hB] at hB1; simp at hB1
      | cons b B1' => exact ⟨b, B1', rfl⟩
    have hB1' : B1'.length = 63 := by rw [hB1c] at hB1; simpa using hB1
    have hzf2 := zfill_append 55 [0] B1' (by omega)
    simp only [List.length_cons, List.length_nil, Nat.zero_add] at hzf2
    have hpad : padLoop (bufferPos p + 1) { p with buffer := Sha256.wr p.buffer (bufferPos p) 0x80 } =
        (56, { p with state := Spec.compress p.state (Spec.blockWords B1), buffer := List.replicate 56 0 ++ B1'.drop 55 }) := by
      rw [hset, hcur, padLoop_fill (63 - tail.length) _ _ (by omega) (by omega) (by intros; omega)]
      have : tail.length + 1 + (63 - tail.length) = 64 := by omega
      rw [this, padLoop_64]
      simp only [hzf]
      rw [writeByteBlock_eq htr { p with buffer := B1 } hst8 hB1]
      rw [padLoop_fill 55 1 _ (by omega) (by omega) (by intros; omega), padLoop_56]
      have h56 : (0 : UInt8) :: List.replicate 55 0 = List.replicate 56 0 := rfl
      simp only [List.cons_append, List.nil_append, h56] at hzf2
      simp only [hB1c, wr_cons_zero, hzf2]
    have := finalize_tail htr p { p with state := Spec.compress p.state (Spec.blockWords B1), buffer := List.replicate 56 0 ++ B1'.drop 55 }
      (List.replicate 56 0) (B1'.drop 55) hpad rfl List.length_replicate (by rw [List.length_drop]; omega)
      (compress_length _ _) hok
    refine ⟨?_, this.2⟩
    rw [this.1, hL, hz]
    have hsplit : tail ++ [0x80] ++ List.replicate (63 - tail.length + 56) 0 ++ Spec.be64 (8 * m.length) =
        B1 ++ (List.replicate 56 0 ++ Spec.be64 (8 * m.length)) := by
      rw [hB1d, ← List.replicate_append_replicate]; simp only [List.append_assoc]
    rw [hsplit, hashBlocks_append 1 B1 (by omega), hashBlocks_block hB1,
      hashBlocks_block (by simp [Spec.be64])]

theorem finalize_spec (htr : TransformOK) (m : List UInt8) (p : Sha) (h : Inv m p) (_hlen : m.length < 2 ^ 61) :
    (finalize p).1 = Spec.sha256 m ∧ Inv [] (finalize p).2 :=
  finalize_spec_all htr m p h

end Nstd.Sha
