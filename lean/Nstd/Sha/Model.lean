import Nstd.Generated.Sha256Tables
/-
  Executable model of `src/Crypto/Sha256.cpp` and of `Sha256::hash/hmac` in
  `include/nstd/Crypto/Sha256.hpp`.

  Translated (tools/gen_sha.py, regenerated from the current sources on every run):
  `K`, `H0`, `count0`, `blockSize`, `digestSize`, `hmacOpad`, `hmacIpad`, `rotrFixed S0 S1 s0 s1 Ch Maj`, and the statement macros
  `blk0 blk2 R` (as transformers of the record `RS` of the variables `Transform` assigns), and the body of
  `Transform` itself (its three loops as `Transform_for1 … Transform_for4`).
  Hand written here: the remaining control flow, mirroring the C++ code line by line
  (`WriteByteBlock`, the byte loop of `update`,
  the padding loop of `finalize` with its wrap-around block, the length loop, the digest
  loop, `hmac`).  The bodies of all these functions are ALSO translated from the current sources on every run
  (`Nstd/Generated/Sha256Body.lean`) and proved equal to the functions of this file (`generated_bodies_are_the_model`,
  `hmac_translated_eq_rfc2104` in Props.lean); the driver executes the translated ones, the functions here serve as the
  readable statement of what the code does and as fall-back when a body leaves the translated C subset.  Loop counters that are plain array positions are `Nat`; array writes go
  through the checked `wr` (an out-of-range write destroys the array instead of being dropped), array reads
  are recorded in the ghost flag `ok` (`inb`: the index was inside the array); `count` is the
  `uint64` of the code (the `count << 3` wrap is part of the model).
-/
namespace Nstd.Sha
open Nstd.Generated.Sha256

/-- `class Sha256 { uint32 state[8]; uint64 count; byte buffer[64]; }` -/
structure Sha where
  state : List UInt32
  count : UInt64
  buffer : List UInt8
  /-- ghost flag of the model: no array read executed on this object so far (state, buffer, the local
  arrays of `Transform`) was out of range -/
  ok : Bool
deriving Repr, DecidableEq

/-- `Transform(UInt32 *state, const UInt32 *data)`: the GENERATED translation of the function body
(`Nstd.Generated.Sha256.Transform`: copy loop `T[j] = state[j]`, the 4 × 16 rounds over the rolling window,
`state[j] += T[j]`), started with the local arrays `T[8]`, `W[16]` holding `t0`, `w0` (they are uninitialised
in C++).  Second component: every array read (`state[j]`, `T[j]` of the two copy loops, and all reads of
`T W K data` inside `R`) was in range. -/
def transformFrom (t0 w0 : List UInt32) (state data : List UInt32) : List UInt32 × Bool :=
  let s := Transform data { T := t0, W := w0, state := state, ok := true }
  (s.state, s.ok)

/-- `Transform` as executed by the model driver: the uninitialised `T`, `W` are zeros (every cell is written
before it is read: `transform_ignores_uninitialised_locals` in Props.lean) -/
def transform (state data : List UInt32) : List UInt32 × Bool :=
  transformFrom (List.replicate 8 0) (List.replicate 16 0) state data

/-- `data32[i] = (buffer[4i] << 24) + (buffer[4i+1] << 16) + (buffer[4i+2] << 8) + buffer[4i+3]` -/
def data32 (buffer : List UInt8) : List UInt32 :=
  (List.range 16).map fun i =>
    ((buffer.getD (i * 4) 0).toUInt32 <<< 24) +
    ((buffer.getD (i * 4 + 1) 0).toUInt32 <<< 16) +
    ((buffer.getD (i * 4 + 2) 0).toUInt32 <<< 8) +
    ((buffer.getD (i * 4 + 3) 0).toUInt32)

/-- the reads `p->buffer[i * 4 + k]` of `WriteByteBlock` are inside `buffer` -/
def data32ok (buffer : List UInt8) : Bool :=
  (List.range 16).all fun i =>
    inb buffer (i * 4) && inb buffer (i * 4 + 1) && inb buffer (i * 4 + 2) && inb buffer (i * 4 + 3)

/-- `WriteByteBlock(p)` -/
def writeByteBlock (p : Sha) : Sha :=
  let t := transform p.state (data32 p.buffer)
  { p with state := t.1, ok := p.ok && data32ok p.buffer && t.2 }

/-- `Sha256::reset()`; the buffer is left as it is (and so is the ghost flag `ok`) -/
def reset (p : Sha) : Sha :=
  { p with state := H0, count := count0 }

/-- a freshly constructed hasher (`Sha256() {reset();}`); the buffer content is indeterminate in
C++, zeros here (it is never read before it is written) -/
def init : Sha := reset { state := [], count := 0, buffer := List.replicate 64 0, ok := true }

/-- the `while (size > 0)` loop of `update` -/
def updateLoop : List UInt8 → Nat → Sha → Sha
  | [], _, p => p
  | b :: rest, cur, p =>
    let p := { p with buffer := wr p.buffer cur b, count := p.count + 1 }
    let cur := cur + 1
    if cur = 64 then updateLoop rest 0 (writeByteBlock p) else updateLoop rest cur p

/-- `curBufferPos = (UInt32)p->count & 0x3F` -/
def bufferPos (p : Sha) : Nat := (p.count.toUInt32 &&& 0x3F).toNat

/-- `Sha256::update(data, size)` -/
def update (p : Sha) (data : List UInt8) : Sha :=
  updateLoop data (bufferPos p) p

/-- `while (curBufferPos != 64 - 8) { curBufferPos &= 0x3F; if (curBufferPos == 0) WriteByteBlock(p);
    p->buffer[curBufferPos++] = 0; }` -/
def padLoop (cur : Nat) (p : Sha) : Nat × Sha :=
  if cur = 56 then (cur, p)
  else
    let c := cur % 64
    let p := if c = 0 then writeByteBlock p else p
    padLoop (c + 1) { p with buffer := wr p.buffer c 0 }
termination_by if cur ≤ 56 then 56 - cur else if cur ≤ 64 then 121 - cur else 200
decreasing_by
  repeat' split
  all_goals omega

/-- `for (i = 0; i < 8; i++) { buffer[curBufferPos++] = (Byte)(lenInBits >> 56); lenInBits <<= 8; }` -/
def lenLoop : Nat → Nat → UInt64 → List UInt8 → List UInt8
  | 0, _, _, buf => buf
  | n + 1, cur, len, buf => lenLoop n (cur + 1) (len <<< 8) (wr buf cur (len >>> 56).toUInt8)

/-- the digest loop: four big-endian bytes per state word -/
def digestOf (state : List UInt32) : List UInt8 :=
  (List.range 8).flatMap fun i =>
    let w := state.getD i 0
    [(w >>> 24).toUInt8, (w >>> 16).toUInt8, (w >>> 8).toUInt8, w.toUInt8]

/-- `Sha256::finalize(digest)`: returns the digest and the hasher after the trailing `reset()` -/
def finalize (p : Sha) : List UInt8 × Sha :=
  let lenInBits := p.count <<< 3
  let cur := bufferPos p
  let p := { p with buffer := wr p.buffer cur 0x80 }
  let r := padLoop (cur + 1) p
  let p := { r.2 with buffer := lenLoop 8 r.1 lenInBits r.2.buffer }
  let p := writeByteBlock p
  (digestOf p.state, reset { p with ok := p.ok && (List.range 8).all fun i => inb p.state i })

/-- `Sha256::hash(data, size, result)` -/
def hash (data : List UInt8) : List UInt8 :=
  (finalize (update init data)).1

/-- `memcpy(a + off, src, |src|)` into the byte array `a` (documented behaviour of `Memory::copy`): a checked block write -
a block that does not fit destroys the array (like `wr`), so that no theorem about the result can hold by accident -/
def storeAt (a : List UInt8) (off : Nat) (src : List UInt8) : List UInt8 :=
  if off + src.length ≤ a.length then a.take off ++ src ++ a.drop (off + src.length) else []

/-- `memset(a + off, 0, n)` on the byte array `a` (documented behaviour of `Memory::zero`) -/
def zeroAt (a : List UInt8) (off n : Nat) : List UInt8 := storeAt a off (List.replicate n 0)

/-- `Sha256::hmac(key, keySize, message, messageSize, result)`; one hasher object is used for
the key digest, the inner and the outer pass (it is reset by each `finalize`).  `blockSize`,
`digestSize` and the two pad bytes are the generated constants of the header; `32`/`64` are the
literals the code uses (`Memory::zero(hashKey + 32, 32)`, `for(int i = 0; i < 64; ++i)`).
Second component: no array read (inside the hasher, and `hashKey[i]`) was out of range. -/
def hmac (key message : List UInt8) : List UInt8 × Bool :=
  let sha := init
  let k : Sha × List UInt8 :=
    if key.length > blockSize then
      let f := finalize (update sha key)
      (f.2, f.1 ++ List.replicate 32 0)
    else
      (sha, key ++ (if key.length < blockSize then List.replicate (blockSize - key.length) 0 else []))
  let sha := k.1
  let hashKey := k.2
  let oKeyPad := (List.range 64).map fun i => hashKey.getD i 0 ^^^ hmacOpad
  let iKeyPad := (List.range 64).map fun i => hashKey.getD i 0 ^^^ hmacIpad
  let sha := update sha iKeyPad
  let sha := update sha message
  let f := finalize sha
  let sha := update f.2 oKeyPad
  let sha := update sha f.1
  let g := finalize sha
  (g.1, g.2.ok && (List.range 64).all fun i => inb hashKey i)

end Nstd.Sha
