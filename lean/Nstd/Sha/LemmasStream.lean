import Nstd.Sha.LemmasBits
/-
  Streaming: `update` over any chunking keeps the invariant
  "state = FIPS hash of the complete blocks, buffer holds the tail, count = total length",
  `finalize` pads exactly like FIPS 180-4 §5.1.1 (one or two final blocks).
  Everything here is relative to `TransformOK` (proved in LemmasTransform).
-/
namespace Nstd.Sha
open Nstd.Generated

/-- one `Transform` call is the FIPS compression function (statement of `transform_eq_fips`) -/
def TransformOK : Prop :=
  ∀ st data : List UInt32, st.length = 8 → data.length = 16 → transform st data = (Spec.compress st data, true)

/-! ### the spec's block iteration -/

theorem hashBlocks_lt {h : List UInt32} {b : List UInt8} (hb : b.length < 64) : Spec.hashBlocks h b = h := by
  rw [Spec.hashBlocks]; simp [hb]

theorem hashBlocks_ge {h : List UInt32} {b : List UInt8} (hb : 64 ≤ b.length) :
    Spec.hashBlocks h b = Spec.hashBlocks (Spec.compress h (Spec.blockWords (b.take 64))) (b.drop 64) := by
  rw [Spec.hashBlocks]; simp [Nat.not_lt.mpr hb]

theorem hashBlocks_block {h : List UInt32} {b : List UInt8} (hb : b.length = 64) :
    Spec.hashBlocks h b = Spec.compress h (Spec.blockWords b) := by
  rw [hashBlocks_ge (by omega), hashBlocks_lt (by simp [hb])]
  rw [List.take_of_length_le (by omega)]

theorem hashBlocks_append : ∀ (n : Nat) (a : List UInt8), a.length = 64 * n → ∀ (h : List UInt32) (b : List UInt8),
    Spec.hashBlocks h (a ++ b) = Spec.hashBlocks (Spec.hashBlocks h a) b := by
  intro n
  induction n with
  | zero =>
    intro a ha h b
    have : a = [] := List.eq_nil_of_length_eq_zero (by omega)
    subst this
    simp [hashBlocks_lt]
  | succ n ih =>
    intro a ha h b
    rw [hashBlocks_ge (b := a ++ b) (by simp; omega), hashBlocks_ge (b := a) (by omega)]
    rw [List.take_append_of_le_length (by omega), List.drop_append_of_le_length (by omega)]
    exact ih (a.drop 64) (by simp; omega) _ b

theorem compress_length (h m : List UInt32) : (Spec.compress h m).length = 8 := by simp [Spec.compress]

theorem hashBlocks_length : ∀ (n : Nat) (b : List UInt8), b.length = n → ∀ h : List UInt32, h.length = 8 →
    (Spec.hashBlocks h b).length = 8 := by
  intro n
  induction n using Nat.strongRecOn with
  | _ n ih =>
    intro b hb h hh
    by_cases hlt : b.length < 64
    · rw [hashBlocks_lt hlt]; exact hh
    · rw [hashBlocks_ge (by omega)]
      exact ih (n - 64) (by omega) (b.drop 64) (by simp; omega) _ (compress_length _ _)

theorem specH0_length : Spec.H0.length = 8 := by decide +kernel

/-! ### the streaming invariant -/

/-- `p` has absorbed the message `m` (of any length: `count` is the `uint64` of the code and holds the length modulo 2^64;
the buffer position `count & 0x3F` is still `m.length % 64`, because 64 divides 2^64) -/
def Inv (m : List UInt8) (p : Sha) : Prop :=
  ∃ full tail rest, m = full ++ tail ∧ full.length % 64 = 0 ∧ p.buffer = tail ++ rest ∧
    tail.length + rest.length = 64 ∧ 0 < rest.length ∧
    p.state = Spec.hashBlocks Spec.H0 full ∧ p.count.toNat = m.length % 2 ^ 64 ∧ p.ok = true

theorem set_mid {α : Type} (xs : List α) (y b : α) (ys : List α) :
    (xs ++ y :: ys).set xs.length b = (xs ++ [b]) ++ ys := by
  rw [List.set_append_right _ _ (Nat.le_refl _)]
  simp

theorem inv_init : Inv [] init := by
  refine ⟨[], [], List.replicate 64 0, rfl, rfl, rfl, by simp, by simp, ?_, ?_, rfl⟩
  · simp [init, reset, genH0_eq, hashBlocks_lt]
  · simp [init, reset, genCount0_eq]

theorem inv_reset (p : Sha) (h : p.buffer.length = 64) (hok : p.ok = true) : Inv [] (reset p) := by
  refine ⟨[], [], p.buffer, rfl, rfl, rfl, by simpa using h, by omega, ?_, ?_, hok⟩
  · simp [reset, genH0_eq, hashBlocks_lt]
  · simp [reset, genCount0_eq]

/-- `WriteByteBlock` on a well-formed object: one FIPS compression of the buffer, no read out of range -/
theorem writeByteBlock_eq (htr : TransformOK) (p : Sha) (hs : p.state.length = 8) (hb : p.buffer.length = 64) :
    writeByteBlock p = { p with state := Spec.compress p.state (Spec.blockWords p.buffer) } := by
  have hT := htr _ _ hs (data32_length p.buffer)
  unfold writeByteBlock
  rw [hT]
  simp only [data32ok_eq _ hb, Bool.and_true, data32_eq]

theorem updateLoop_inv (htr : TransformOK) : ∀ (data m : List UInt8) (p : Sha), Inv m p →
    Inv (m ++ data) (updateLoop data (m.length % 64) p) := by
  intro data
  induction data with
  | nil => intro m p h; simpa [updateLoop] using h
  | cons b data ih =>
    intro m p h
    obtain ⟨full, tail, rest, hm, hfull, hbuf, hsz, hrest, hst, hcnt, hok⟩ := h
    have hcur : m.length % 64 = tail.length := by
      have : m.length = full.length + tail.length := by rw [hm]; simp
      omega
    obtain ⟨r, rest', rfl⟩ : ∃ r rest', rest = r :: rest' := by
      cases rest with
      | nil => simp at hrest
      | cons r rest' => exact ⟨r, rest', rfl⟩
    have hcount : (p.count + 1).toNat = (m.length + 1) % 2 ^ 64 := by
      rw [UInt64.toNat_add, hcnt]
      have : (1 : UInt64).toNat = 1 := by decide
      rw [this]
      omega
    have hmb : m ++ b :: data = (m ++ [b]) ++ data := by simp
    simp only [updateLoop, hcur, hbuf, wr_mid]
    simp only [List.length_cons] at hsz
    by_cases hc : tail.length + 1 = 64
    · simp only [hc, if_true]
      have hr' : rest' = [] := List.eq_nil_of_length_eq_zero (by omega)
      subst hr'
      have hst8 : p.state.length = 8 := by
        rw [hst]; exact hashBlocks_length _ _ rfl _ specH0_length
      have hI : Inv (m ++ [b]) (writeByteBlock { p with buffer := tail ++ [b] ++ [], count := p.count + 1 }) := by
        rw [writeByteBlock_eq htr { p with buffer := tail ++ [b] ++ [], count := p.count + 1 } hst8 (by simp; omega)]
        refine ⟨full ++ (tail ++ [b]), [], tail ++ [b], by simp [hm], by simp; omega, by simp,
          by simp; omega, by simp, ?_, by simp [hcount], hok⟩
        have hfl : full.length = 64 * (full.length / 64) := by omega
        simp only [List.append_nil]
        rw [hashBlocks_append _ full hfl, hashBlocks_block (by simp; omega), hst]
      have h0 : (m ++ [b]).length % 64 = 0 := by
        have : m.length = full.length + tail.length := by rw [hm]; simp
        simp only [List.length_append, List.length_cons, List.length_nil]; omega
      have := ih (m ++ [b]) _ hI
      rw [h0] at this
      rw [hmb]; exact this
    · simp only [hc, if_false]
      have hI : Inv (m ++ [b]) { p with buffer := tail ++ [b] ++ rest', count := p.count + 1 } := by
        refine ⟨full, tail ++ [b], rest', by simp [hm], hfull, rfl, by simp; omega, ?_, hst, by simp [hcount], hok⟩
        cases rest' with
        | nil => simp at hsz; omega
        | cons _ _ => simp
      have h1 : (m ++ [b]).length % 64 = tail.length + 1 := by
        have : m.length = full.length + tail.length := by rw [hm]; simp
        simp only [List.length_append, List.length_cons, List.length_nil]; omega
      have := ih (m ++ [b]) _ hI
      rw [h1] at this
      rw [hmb]; exact this

theorem update_inv (htr : TransformOK) (m data : List UInt8) (p : Sha) (h : Inv m p) : Inv (m ++ data) (update p data) := by
  have hc : p.count.toNat = m.length % 2 ^ 64 := by
    obtain ⟨_, _, _, _, _, _, _, _, _, hcnt, _⟩ := h; exact hcnt
  unfold update
  rw [bufferPos_eq, hc, show m.length % 2 ^ 64 % 64 = m.length % 64 from by omega]
  exact updateLoop_inv htr data m p h

theorem foldl_update_inv (htr : TransformOK) : ∀ (chunks : List (List UInt8)) (m : List UInt8) (p : Sha), Inv m p →
    Inv (m ++ chunks.flatten) (chunks.foldl update p) := by
  intro chunks
  induction chunks with
  | nil => intro m p h; simpa using h
  | cons c cs ih =>
    intro m p h
    have := ih (m ++ c) (update p c) (update_inv htr m c p h)
    simpa [List.append_assoc] using this

/-! ### chunk boundaries leave no trace in the object (state level, any object) -/

theorem writeByteBlock_count (p : Sha) : (writeByteBlock p).count = p.count := rfl

/-- the loop of `update` over `a ++ b`, entered at the buffer position derived from `count`, is the loop over `a`
followed by the loop over `b` re-entered at the position re-derived from the `count` it finds -/
theorem updateLoop_append_aux (b : List UInt8) : ∀ (a : List UInt8) (cur : Nat) (p : Sha), cur = bufferPos p →
    updateLoop (a ++ b) cur p = updateLoop b (bufferPos (updateLoop a cur p)) (updateLoop a cur p) := by
  intro a
  induction a with
  | nil => intro cur p h; simp [updateLoop, h]
  | cons x rest ih =>
    intro cur p h
    have hc : ((p.count + 1).toNat) % 64 = (cur + 1) % 64 := by
      rw [h, bufferPos_eq, UInt64.toNat_add, show UInt64.toNat 1 = 1 from rfl]; omega
    have hlt : cur < 64 := by rw [h, bufferPos_eq]; omega
    simp only [List.cons_append, updateLoop]
    by_cases h64 : cur + 1 = 64
    · simp only [h64, if_true]
      apply ih
      rw [bufferPos_eq, writeByteBlock_count]; simp only []; rw [hc, h64]
    · simp only [h64, if_false]
      apply ih
      rw [bufferPos_eq]; simp only []; rw [hc]; omega

theorem update_update (p : Sha) (a b : List UInt8) : update (update p a) b = update p (a ++ b) := by
  unfold update
  rw [updateLoop_append_aux b a (bufferPos p) p rfl]

theorem foldl_update_flatten : ∀ (chunks : List (List UInt8)) (p : Sha), chunks.foldl update p = update p chunks.flatten := by
  intro chunks
  induction chunks with
  | nil => intro p; rfl
  | cons c cs ih => intro p; rw [List.foldl_cons, ih, update_update, List.flatten_cons]

end Nstd.Sha
