import Nstd.Sha.LemmasBits
/-
  One `Transform` call (rolling 16-word window `W`, rotating register index `T[(k-i)&7]`,
  generated macro bodies) equals the FIPS 180-4 §6.2.2 compression function (64-entry
  schedule, named registers).
-/
namespace Nstd.Sha
open Nstd.Generated Nstd.Generated.Sha256

/-! ### the generated word functions are the functions of FIPS 180-4 §4.1.2
(`Ch`, `Maj` bit by bit, so that any boolean-equivalent way of writing the macros is accepted) -/
set_option linter.unusedSimpArgs false

theorem Ch_eq (x y z : UInt32) : Sha256.Ch x y z = Spec.Ch x y z := by
  first
  | rfl
  | (apply UInt32.eq_of_toBitVec_eq
     simp only [Sha256.Ch, Spec.Ch, UInt32.toBitVec_xor, UInt32.toBitVec_and, UInt32.toBitVec_or, UInt32.toBitVec_not]
     ext i hi
     simp only [BitVec.getElem_xor, BitVec.getElem_and, BitVec.getElem_or, BitVec.getElem_not]
     cases x.toBitVec[i] <;> cases y.toBitVec[i] <;> cases z.toBitVec[i] <;> rfl)

theorem Maj_eq (x y z : UInt32) : Sha256.Maj x y z = Spec.Maj x y z := by
  first
  | rfl
  | (apply UInt32.eq_of_toBitVec_eq
     simp only [Sha256.Maj, Spec.Maj, UInt32.toBitVec_xor, UInt32.toBitVec_and, UInt32.toBitVec_or, UInt32.toBitVec_not]
     ext i hi
     simp only [BitVec.getElem_xor, BitVec.getElem_and, BitVec.getElem_or, BitVec.getElem_not]
     cases x.toBitVec[i] <;> cases y.toBitVec[i] <;> cases z.toBitVec[i] <;> rfl)

/-- closes a Boolean equation whose atoms are bits `x.toBitVec.getLsbD k` of the word `x` -/
macro "bool_bits" x:ident : tactic => `(tactic| (
  try generalize ($x).toBitVec.getLsbD 0 = b0
  try generalize ($x).toBitVec.getLsbD 1 = b1
  try generalize ($x).toBitVec.getLsbD 2 = b2
  try generalize ($x).toBitVec.getLsbD 3 = b3
  try generalize ($x).toBitVec.getLsbD 4 = b4
  try generalize ($x).toBitVec.getLsbD 5 = b5
  try generalize ($x).toBitVec.getLsbD 6 = b6
  try generalize ($x).toBitVec.getLsbD 7 = b7
  try generalize ($x).toBitVec.getLsbD 8 = b8
  try generalize ($x).toBitVec.getLsbD 9 = b9
  try generalize ($x).toBitVec.getLsbD 10 = b10
  try generalize ($x).toBitVec.getLsbD 11 = b11
  try generalize ($x).toBitVec.getLsbD 12 = b12
  try generalize ($x).toBitVec.getLsbD 13 = b13
  try generalize ($x).toBitVec.getLsbD 14 = b14
  try generalize ($x).toBitVec.getLsbD 15 = b15
  try generalize ($x).toBitVec.getLsbD 16 = b16
  try generalize ($x).toBitVec.getLsbD 17 = b17
  try generalize ($x).toBitVec.getLsbD 18 = b18
  try generalize ($x).toBitVec.getLsbD 19 = b19
  try generalize ($x).toBitVec.getLsbD 20 = b20
  try generalize ($x).toBitVec.getLsbD 21 = b21
  try generalize ($x).toBitVec.getLsbD 22 = b22
  try generalize ($x).toBitVec.getLsbD 23 = b23
  try generalize ($x).toBitVec.getLsbD 24 = b24
  try generalize ($x).toBitVec.getLsbD 25 = b25
  try generalize ($x).toBitVec.getLsbD 26 = b26
  try generalize ($x).toBitVec.getLsbD 27 = b27
  try generalize ($x).toBitVec.getLsbD 28 = b28
  try generalize ($x).toBitVec.getLsbD 29 = b29
  try generalize ($x).toBitVec.getLsbD 30 = b30
  try generalize ($x).toBitVec.getLsbD 31 = b31
  decide +revert))

theorem forall_lt_32 (P : Nat → Prop) (h0 : P 0) (h1 : P 1) (h2 : P 2) (h3 : P 3) (h4 : P 4) (h5 : P 5) (h6 : P 6) (h7 : P 7) (h8 : P 8) (h9 : P 9) (h10 : P 10) (h11 : P 11) (h12 : P 12) (h13 : P 13) (h14 : P 14) (h15 : P 15) (h16 : P 16) (h17 : P 17) (h18 : P 18) (h19 : P 19) (h20 : P 20) (h21 : P 21) (h22 : P 22) (h23 : P 23) (h24 : P 24) (h25 : P 25) (h26 : P 26) (h27 : P 27) (h28 : P 28) (h29 : P 29) (h30 : P 30) (h31 : P 31) :
    ∀ i, i < 32 → P i := by
  intro i hi
  have hcases : i = 0 ∨ i = 1 ∨ i = 2 ∨ i = 3 ∨ i = 4 ∨ i = 5 ∨ i = 6 ∨ i = 7 ∨ i = 8 ∨ i = 9 ∨ i = 10 ∨ i = 11 ∨ i = 12 ∨ i = 13 ∨ i = 14 ∨ i = 15 ∨ i = 16 ∨ i = 17 ∨ i = 18 ∨ i = 19 ∨ i = 20 ∨ i = 21 ∨ i = 22 ∨ i = 23 ∨ i = 24 ∨ i = 25 ∨ i = 26 ∨ i = 27 ∨ i = 28 ∨ i = 29 ∨ i = 30 ∨ i = 31 := by omega
  rcases hcases with rfl | rfl | rfl | rfl | rfl | rfl | rfl | rfl | rfl | rfl | rfl | rfl | rfl | rfl | rfl | rfl | rfl | rfl | rfl | rfl | rfl | rfl | rfl | rfl | rfl | rfl | rfl | rfl | rfl | rfl | rfl | rfl <;> assumption

theorem word_ext (a b : UInt32) (h : ∀ i, i < 32 → a.toBitVec.getLsbD i = b.toBitVec.getLsbD i) : a = b :=
  UInt32.eq_of_toBitVec_eq (BitVec.eq_of_getLsbD_eq h)

/-- `f x = g x` for two words built from `x` by constant shifts/rotations, `^ | & ~`: bit by bit, for each of
the 32 positions both sides reduce to a Boolean expression over single bits of `x` -/
macro "word_bits" x:ident : tactic => `(tactic| (
  try sha_macro_unfold
  apply word_ext
  apply forall_lt_32 <;>
  simp [Spec.bigSigma0, Spec.bigSigma1, Spec.smallSigma0, Spec.smallSigma1, Spec.rotr, Spec.shr,
    UInt32.toBitVec_xor, UInt32.toBitVec_or, UInt32.toBitVec_and, UInt32.toBitVec_not,
    UInt32.toBitVec_shiftRight, UInt32.toBitVec_shiftLeft, BitVec.getLsbD_xor, BitVec.getLsbD_or, BitVec.getLsbD_and,
    BitVec.getLsbD_not, BitVec.getLsbD_ushiftRight, BitVec.getLsbD_shiftLeft, -BitVec.getLsbD_eq_getElem] <;> bool_bits $x))

/- `S0 S1 s0 s1`: `rfl` when the macros are written like the standard writes Σ₀ Σ₁ σ₀ σ₁ (as they are
   today); otherwise bit by bit, so that any equivalent way of writing them (rotate left by 32-n, other
   operand order, helper macros) is accepted and a wrong rotation count is not. -/
theorem S0_eq (x : UInt32) : Sha256.S0 x = Spec.bigSigma0 x := by
  first | rfl | word_bits x
theorem S1_eq (x : UInt32) : Sha256.S1 x = Spec.bigSigma1 x := by
  first | rfl | word_bits x
theorem s0_eq (x : UInt32) : Sha256.s0 x = Spec.smallSigma0 x := by
  first | rfl | word_bits x
theorem s1_eq (x : UInt32) : Sha256.s1 x = Spec.smallSigma1 x := by
  first | rfl | word_bits x

/-- the bit-level tactic itself, exercised on every build on an equivalent but differently written Σ₀
(rotate left, helper function, permuted operands) and σ₀ -/
def rotlTest (x n : UInt32) : UInt32 := (x <<< n) ||| (x >>> (32 - n))
theorem word_bits_selftest (x : UInt32) :
    (rotlTest x 19 ^^^ (rotlTest x 10 ^^^ Sha256.rotrFixed x 2)) = Spec.bigSigma0 x ∧
    ((x >>> 3) ^^^ rotlTest x 25 ^^^ rotlTest x 14) = Spec.smallSigma0 x := by
  constructor
  · simp only [rotlTest]; word_bits x
  · simp only [rotlTest]; word_bits x

/-! ### index arithmetic of the macros (`unsigned` wrap-around and masks), all `i < 16` -/

theorem idxT0 : ∀ i, i < 16 → ((0 - UInt32.ofNat i) &&& 7).toNat = (16 - i) % 8 := by decide +kernel
theorem idxT1 : ∀ i, i < 16 → ((1 - UInt32.ofNat i) &&& 7).toNat = (17 - i) % 8 := by decide +kernel
theorem idxT2 : ∀ i, i < 16 → ((2 - UInt32.ofNat i) &&& 7).toNat = (18 - i) % 8 := by decide +kernel
theorem idxT3 : ∀ i, i < 16 → ((3 - UInt32.ofNat i) &&& 7).toNat = (19 - i) % 8 := by decide +kernel
theorem idxT4 : ∀ i, i < 16 → ((4 - UInt32.ofNat i) &&& 7).toNat = (20 - i) % 8 := by decide +kernel
theorem idxT5 : ∀ i, i < 16 → ((5 - UInt32.ofNat i) &&& 7).toNat = (21 - i) % 8 := by decide +kernel
theorem idxT6 : ∀ i, i < 16 → ((6 - UInt32.ofNat i) &&& 7).toNat = (22 - i) % 8 := by decide +kernel
theorem idxT7 : ∀ i, i < 16 → ((7 - UInt32.ofNat i) &&& 7).toNat = (23 - i) % 8 := by decide +kernel
theorem idxW0 : ∀ i, i < 16 → (UInt32.ofNat i &&& 15).toNat = i := by decide +kernel
theorem idxW2 : ∀ i, i < 16 → ((UInt32.ofNat i - 2) &&& 15).toNat = (i + 14) % 16 := by decide +kernel
theorem idxW7 : ∀ i, i < 16 → ((UInt32.ofNat i - 7) &&& 15).toNat = (i + 9) % 16 := by decide +kernel
theorem idxW15 : ∀ i, i < 16 → ((UInt32.ofNat i - 15) &&& 15).toNat = (i + 1) % 16 := by decide +kernel
theorem idxI : ∀ i, i < 16 → (UInt32.ofNat i).toNat = i := by decide +kernel
theorem idxK : ∀ j, j < 64 → ∀ i, i < 16 → (UInt32.ofNat i + UInt32.ofNat j).toNat = i + j := by decide +kernel
theorem jNe : ∀ j, j < 64 → (UInt32.ofNat j ≠ 0 ↔ j ≠ 0) := by decide +kernel

/-! ### the message schedule -/

theorem repeat_succ {α : Type} (f : α → α) (n : Nat) (a : α) : Nat.repeat f (n + 1) a = f (Nat.repeat f n a) := rfl

theorem sched_length (data : List UInt32) (n : Nat) :
    (Nat.repeat Spec.scheduleStep n data).length = data.length + n := by
  induction n with
  | zero => rfl
  | succ n ih => rw [repeat_succ]; simp [Spec.scheduleStep, ih]; omega

theorem getD_append_lt {α : Type} (l r : List α) (t : Nat) (d : α) (h : t < l.length) :
    (l ++ r).getD t d = l.getD t d := by
  simp [List.getD_eq_getElem?_getD, List.getElem?_append_left h]

theorem getD_append_len {α : Type} (l : List α) (x d : α) : (l ++ [x]).getD l.length d = x := by
  simp [List.getD_eq_getElem?_getD]

theorem sched_stable (data : List UInt32) (hd : data.length = 16) (t n : Nat) (ht : t < 16 + n) :
    ∀ m, n ≤ m → (Nat.repeat Spec.scheduleStep m data).getD t 0 = (Nat.repeat Spec.scheduleStep n data).getD t 0 := by
  intro m hm
  induction m with
  | zero => have : n = 0 := by omega
            subst this; rfl
  | succ m ih =>
    by_cases h : n = m + 1
    · subst h; rfl
    · rw [repeat_succ, Spec.scheduleStep, getD_append_lt _ _ _ _ (by rw [sched_length, hd]; omega)]
      exact ih (by omega)

theorem schedule_lt16 (data : List UInt32) (hd : data.length = 16) (t : Nat) (ht : t < 16) :
    (Spec.schedule data).getD t 0 = data.getD t 0 :=
  sched_stable data hd t 0 (by omega) 48 (by omega)

theorem schedule_rec (data : List UInt32) (hd : data.length = 16) (t : Nat) (h16 : 16 ≤ t) (h64 : t < 64) :
    (Spec.schedule data).getD t 0 =
      Spec.smallSigma1 ((Spec.schedule data).getD (t - 2) 0) + (Spec.schedule data).getD (t - 7) 0 +
      Spec.smallSigma0 ((Spec.schedule data).getD (t - 15) 0) + (Spec.schedule data).getD (t - 16) 0 := by
  obtain ⟨n, rfl⟩ : ∃ n, t = 16 + n := ⟨t - 16, by omega⟩
  have hs : ∀ u, u < 16 + n → (Spec.schedule data).getD u 0 = (Nat.repeat Spec.scheduleStep n data).getD u 0 :=
    fun u hu => sched_stable data hd u n hu 48 (by omega)
  rw [hs (16 + n - 2) (by omega), hs (16 + n - 7) (by omega), hs (16 + n - 15) (by omega), hs (16 + n - 16) (by omega)]
  have : (Spec.schedule data).getD (16 + n) 0 = (Nat.repeat Spec.scheduleStep (n + 1) data).getD (16 + n) 0 :=
    sched_stable data hd (16 + n) (n + 1) (by omega) 48 (by omega)
  rw [this, repeat_succ, Spec.scheduleStep]
  have hl : (Nat.repeat Spec.scheduleStep n data).length = 16 + n := by rw [sched_length, hd]
  simp only [hl]
  rw [← hl, getD_append_len]

/-! ### one round -/

/-- the eight registers a…h as the code addresses them in round `i`: `T[(k-i)&7]` -/
def regsAt (T : List UInt32) (i : Nat) : Spec.Regs :=
  ⟨T.getD ((16 - i) % 8) 0, T.getD ((17 - i) % 8) 0, T.getD ((18 - i) % 8) 0, T.getD ((19 - i) % 8) 0,
   T.getD ((20 - i) % 8) 0, T.getD ((21 - i) % 8) 0, T.getD ((22 - i) % 8) 0, T.getD ((23 - i) % 8) 0⟩

/-- `(j ? blk2(i) : blk0(i))` -/
def blk (data : List UInt32) (j i : UInt32) (s : RS) : RS × UInt32 :=
  if j ≠ 0 then blk2 i s else blk0 data i s

theorem blk_T (data : List UInt32) (j i : UInt32) (s : RS) : (blk data j i s).1.T = s.T := by
  unfold blk; split <;> rfl

theorem blk_state (data : List UInt32) (j i : UInt32) (s : RS) : (blk data j i s).1.state = s.state := by
  unfold blk; split <;> rfl

theorem R_step (kk data : List UInt32) (j : UInt32) (i : Nat) (hi : i < 16)
    (t0 t1 t2 t3 t4 t5 t6 t7 : UInt32) (W S : List UInt32) (ok : Bool)
    (hk : (UInt32.ofNat i + j).toNat < kk.length) :
    (R kk data j (UInt32.ofNat i) ⟨[t0, t1, t2, t3, t4, t5, t6, t7], W, S, ok⟩).W =
      (blk data j (UInt32.ofNat i) ⟨[t0, t1, t2, t3, t4, t5, t6, t7], W, S, ok⟩).1.W ∧
    (R kk data j (UInt32.ofNat i) ⟨[t0, t1, t2, t3, t4, t5, t6, t7], W, S, ok⟩).ok =
      (blk data j (UInt32.ofNat i) ⟨[t0, t1, t2, t3, t4, t5, t6, t7], W, S, ok⟩).1.ok ∧
    (R kk data j (UInt32.ofNat i) ⟨[t0, t1, t2, t3, t4, t5, t6, t7], W, S, ok⟩).T.length = 8 ∧
    regsAt (R kk data j (UInt32.ofNat i) ⟨[t0, t1, t2, t3, t4, t5, t6, t7], W, S, ok⟩).T (i + 1) =
      Spec.round (regsAt [t0, t1, t2, t3, t4, t5, t6, t7] i) (kk.getD (UInt32.ofNat i + j).toNat 0)
        (blk data j (UInt32.ofNat i) ⟨[t0, t1, t2, t3, t4, t5, t6, t7], W, S, ok⟩).2 ∧
    (R kk data j (UInt32.ofNat i) ⟨[t0, t1, t2, t3, t4, t5, t6, t7], W, S, ok⟩).state = S := by
  have hb : ∀ s : RS, (if j ≠ 0 then (blk2 (UInt32.ofNat i) s) else (blk0 data (UInt32.ofNat i) s)) =
      blk data j (UInt32.ofNat i) s := fun _ => rfl
  simp only [R, hb, blk_T, blk_state, inb_eq kk _ hk, idxT0 i hi, idxT1 i hi, idxT2 i hi, idxT3 i hi, idxT4 i hi, idxT5 i hi,
    idxT6 i hi, idxT7 i hi]
  generalize kk.getD (UInt32.ofNat i + j).toNat 0 = kt
  generalize (blk data j (UInt32.ofNat i) ⟨[t0, t1, t2, t3, t4, t5, t6, t7], W, S, ok⟩) = bw
  have : i = 0 ∨ i = 1 ∨ i = 2 ∨ i = 3 ∨ i = 4 ∨ i = 5 ∨ i = 6 ∨ i = 7 ∨ i = 8 ∨ i = 9 ∨ i = 10 ∨ i = 11 ∨
      i = 12 ∨ i = 13 ∨ i = 14 ∨ i = 15 := by omega
  rcases this with rfl | rfl | rfl | rfl | rfl | rfl | rfl | rfl | rfl | rfl | rfl | rfl | rfl | rfl | rfl | rfl <;>
    simp [wr, inb, regsAt, Spec.round, S0_eq, S1_eq, Ch_eq, Maj_eq] <;> (try (and_intros <;> ac_rfl)) <;> ac_rfl

theorem getD_set_eq {α : Type} (l : List α) (n : Nat) (v d : α) (h : n < l.length) : (l.set n v).getD n d = v := by
  simp [List.getD_eq_getElem?_getD, h]

theorem getD_set_ne {α : Type} (l : List α) (n m : Nat) (v d : α) (h : n ≠ m) : (l.set n v).getD m d = l.getD m d := by
  simp [List.getD_eq_getElem?_getD, h]

theorem rounds_succ (w : List UInt32) (n : Nat) (r : Spec.Regs) :
    Spec.rounds w (n + 1) r = Spec.round (Spec.rounds w n r) (Spec.K.getD n 0) (w.getD n 0) := by
  simp [Spec.rounds, List.range_succ, List.foldl_append]

/-- invariant of the round loops: `j + i` rounds done -/
structure RInv (data : List UInt32) (r0 : Spec.Regs) (j i : Nat) (s : RS) : Prop where
  hT : s.T.length = 8
  hW : s.W.length = 16
  ok : s.ok = true
  regs : regsAt s.T i = Spec.rounds (Spec.schedule data) (j + i) r0
  win : ∀ u, u < j + i → j + i ≤ u + 16 → s.W.getD (u % 16) 0 = (Spec.schedule data).getD u 0

theorem list8 (T : List UInt32) (h : T.length = 8) : ∃ t0 t1 t2 t3 t4 t5 t6 t7, T = [t0, t1, t2, t3, t4, t5, t6, t7] := by
  match T, h with
  | [t0, t1, t2, t3, t4, t5, t6, t7], _ => exact ⟨t0, t1, t2, t3, t4, t5, t6, t7, rfl⟩

/-- the part of the loop invariant that concerns the rolling window `W` (shared with the `_SHA256_UNROLL2` variant) -/
structure WInv (data : List UInt32) (n : Nat) (W : List UInt32) (ok : Bool) : Prop where
  hW : W.length = 16
  ok : ok = true
  win : ∀ u, u < n → n ≤ u + 16 → W.getD (u % 16) 0 = (Spec.schedule data).getD u 0

theorem blk_spec (data : List UInt32) (hd : data.length = 16) (j i : Nat) (hj : j % 16 = 0) (hj64 : j < 64)
    (hi : i < 16) (s : RS) (h : WInv data (j + i) s.W s.ok) :
    (blk data (UInt32.ofNat j) (UInt32.ofNat i) s).2 = (Spec.schedule data).getD (j + i) 0 ∧
    (blk data (UInt32.ofNat j) (UInt32.ofNat i) s).1.W.length = 16 ∧
    (blk data (UInt32.ofNat j) (UInt32.ofNat i) s).1.ok = true ∧
    ∀ u, u < j + i + 1 → j + i + 1 ≤ u + 16 →
      (blk data (UInt32.ofNat j) (UInt32.ofNat i) s).1.W.getD (u % 16) 0 = (Spec.schedule data).getD u 0 := by
  have hW := h.hW
  by_cases hj0 : j = 0
  · subst hj0
    have : blk data (UInt32.ofNat 0) (UInt32.ofNat i) s = blk0 data (UInt32.ofNat i) s := by
      unfold blk; simp
    rw [this]
    simp only [blk0, idxI i hi, Nat.zero_add, wr_eq_set s.W i _ (by omega), List.length_set,
      inb_eq data i (by omega), h.ok, Bool.and_self]
    refine ⟨(schedule_lt16 data hd i hi).symm, hW, trivial, ?_⟩
    intro u hu1 hu2
    by_cases hu : u = i
    · subst hu
      rw [Nat.mod_eq_of_lt hi, getD_set_eq _ _ _ _ (by omega), schedule_lt16 data hd u hi]
    · rw [getD_set_ne _ _ _ _ _ (by omega)]
      exact h.win u (by omega) (by omega)
  · have hne : UInt32.ofNat j ≠ 0 := (jNe j hj64).mpr hj0
    have : blk data (UInt32.ofNat j) (UInt32.ofNat i) s = blk2 (UInt32.ofNat i) s := by
      unfold blk; simp [hne]
    rw [this]
    simp only [blk2]
    rw [idxW2 i hi, idxW7 i hi, idxW15 i hi, idxW0 i hi]
    rw [wr_eq_set s.W i _ (by omega), s0_eq, s1_eq, List.length_set]
    simp only [inb_eq s.W _ (by omega : (i + 14) % 16 < s.W.length), inb_eq s.W _ (by omega : (i + 9) % 16 < s.W.length),
      inb_eq s.W _ (by omega : (i + 1) % 16 < s.W.length), inb_eq s.W i (by omega), h.ok, Bool.and_self]
    have e2 : (i + 14) % 16 = (j + i - 2) % 16 := by omega
    have e7 : (i + 9) % 16 = (j + i - 7) % 16 := by omega
    have e15 : (i + 1) % 16 = (j + i - 15) % 16 := by omega
    have e16 : i = (j + i - 16) % 16 := by omega
    have hv : s.W.getD i 0 + (Spec.smallSigma1 (s.W.getD ((i + 14) % 16) 0) + s.W.getD ((i + 9) % 16) 0 +
        Spec.smallSigma0 (s.W.getD ((i + 1) % 16) 0)) = (Spec.schedule data).getD (j + i) 0 := by
      rw [schedule_rec data hd (j + i) (by omega) (by omega), e2, e7, e15]
      conv => lhs; arg 1; rw [e16]
      rw [h.win (j + i - 2) (by omega) (by omega), h.win (j + i - 7) (by omega) (by omega),
        h.win (j + i - 15) (by omega) (by omega), h.win (j + i - 16) (by omega) (by omega)]
      generalize (Spec.schedule data).getD (j + i - 2) 0 = a
      generalize (Spec.schedule data).getD (j + i - 7) 0 = b
      generalize (Spec.schedule data).getD (j + i - 15) 0 = c
      generalize (Spec.schedule data).getD (j + i - 16) 0 = d
      ac_rfl
    refine ⟨hv, hW, trivial, ?_⟩
    intro u hu1 hu2
    by_cases hu : u = j + i
    · subst hu
      have : (j + i) % 16 = i := by omega
      rw [this, getD_set_eq _ _ _ _ (by omega), hv]
    · rw [getD_set_ne _ _ _ _ _ (by omega)]
      exact h.win u (by omega) (by omega)

theorem R_state (kk data : List UInt32) (j i : UInt32) (s : RS) : (R kk data j i s).state = s.state := by
  simp only [R]
  split <;> rfl

theorem R_inv (data : List UInt32) (hd : data.length = 16) (r0 : Spec.Regs) (j i : Nat) (hj : j % 16 = 0) (hj64 : j < 64)
    (hi : i < 16) (s : RS) (h : RInv data r0 j i s) :
    RInv data r0 j (i + 1) (R Sha256.K data (UInt32.ofNat j) (UInt32.ofNat i) s) := by
  obtain ⟨t0, t1, t2, t3, t4, t5, t6, t7, hT⟩ := list8 s.T h.hT
  obtain ⟨T, W, S, ok⟩ := s
  simp only at hT
  subst hT
  obtain ⟨hv, hWl, hok, hwin⟩ := blk_spec data hd j i hj hj64 hi _ ⟨h.hW, h.ok, h.win⟩
  have hk : (UInt32.ofNat i + UInt32.ofNat j).toNat < Sha256.K.length := by
    rw [idxK j hj64 i hi, show Sha256.K.length = 64 from by decide]; omega
  obtain ⟨h1, h2, h3, h4, _⟩ := R_step Sha256.K data (UInt32.ofNat j) i hi t0 t1 t2 t3 t4 t5 t6 t7 W S ok hk
  refine ⟨h3, by rw [h1]; exact hWl, by rw [h2]; exact hok, ?_, ?_⟩
  · rw [h4, hv, idxK j hj64 i hi, ← Nat.add_assoc, rounds_succ, ← h.regs, genK_eq, Nat.add_comm i j]
  · intro u hu1 hu2
    rw [h1]
    exact hwin u (by omega) (by omega)

/-- the generated loop `for (i = 0; i < 16; i++) { R(i); }` -/
theorem for3_unfold (data : List UInt32) (j i : Nat) (s : RS) :
    Transform_for3 data j i s =
      if i < 16 then Transform_for3 data j (i + 1) (R Sha256.K data (UInt32.ofNat j) (UInt32.ofNat i) s) else s := by
  rw [Transform_for3]; rfl

theorem innerLoop_inv (data : List UInt32) (hd : data.length = 16) (r0 : Spec.Regs) (j : Nat) (hj : j % 16 = 0) (hj64 : j < 64) :
    ∀ (n i : Nat) (s : RS), 16 - i = n → i ≤ 16 → RInv data r0 j i s →
      RInv data r0 j 16 (Transform_for3 data j i s) ∧ (Transform_for3 data j i s).state = s.state := by
  intro n
  induction n with
  | zero =>
    intro i s hn hi h
    have : i = 16 := by omega
    subst this
    rw [for3_unfold]; simpa using h
  | succ n ih =>
    intro i s hn hi h
    have hi' : i < 16 := by omega
    rw [for3_unfold]
    simp only [hi', if_true]
    have := ih (i + 1) _ (by omega) (by omega) (R_inv data hd r0 j i hj hj64 hi' s h)
    exact ⟨this.1, by rw [this.2, R_state]⟩

theorem RInv_next (data : List UInt32) (r0 : Spec.Regs) (j : Nat) (s : RS) (h : RInv data r0 j 16 s) :
    RInv data r0 (j + 16) 0 s :=
  ⟨h.hT, h.hW, h.ok, h.regs, h.win⟩

/-- the generated loop `for (j = 0; j < 64; j += 16) { for (i …) … }` -/
theorem outerLoop_eq (data : List UInt32) (s : RS) :
    Transform_for2 data 0 s =
      Transform_for3 data 48 0 (Transform_for3 data 32 0 (Transform_for3 data 16 0 (Transform_for3 data 0 0 s))) := by
  rw [Transform_for2, if_pos (by omega), Transform_for2, if_pos (by omega), Transform_for2, if_pos (by omega), Transform_for2,
    if_pos (by omega), Transform_for2, if_neg (by omega)]
  rfl

/-- the generated copy loop `for (j = 0; j < 8; j++) T[j] = state[j];` -/
theorem for1_eq (data : List UInt32) (a0 a1 a2 a3 a4 a5 a6 a7 h0 h1 h2 h3 h4 h5 h6 h7 : UInt32) (W : List UInt32) :
    Transform_for1 data 0 ⟨[a0, a1, a2, a3, a4, a5, a6, a7], W, [h0, h1, h2, h3, h4, h5, h6, h7], true⟩ =
      ⟨[h0, h1, h2, h3, h4, h5, h6, h7], W, [h0, h1, h2, h3, h4, h5, h6, h7], true⟩ := by
  rw [Transform_for1, if_pos (by omega), Transform_for1, if_pos (by omega), Transform_for1, if_pos (by omega),
    Transform_for1, if_pos (by omega), Transform_for1, if_pos (by omega), Transform_for1, if_pos (by omega),
    Transform_for1, if_pos (by omega), Transform_for1, if_pos (by omega), Transform_for1, if_neg (by omega)]
  simp [Transform_for1_body, wr, inb]

/-- the generated loop `for (j = 0; j < 8; j++) state[j] += T[j];` -/
theorem for4_eq (data : List UInt32) (u0 u1 u2 u3 u4 u5 u6 u7 h0 h1 h2 h3 h4 h5 h6 h7 : UInt32) (W : List UInt32) :
    Transform_for4 data 0 ⟨[u0, u1, u2, u3, u4, u5, u6, u7], W, [h0, h1, h2, h3, h4, h5, h6, h7], true⟩ =
      ⟨[u0, u1, u2, u3, u4, u5, u6, u7], W,
       [h0 + u0, h1 + u1, h2 + u2, h3 + u3, h4 + u4, h5 + u5, h6 + u6, h7 + u7], true⟩ := by
  rw [Transform_for4, if_pos (by omega), Transform_for4, if_pos (by omega), Transform_for4, if_pos (by omega),
    Transform_for4, if_pos (by omega), Transform_for4, if_pos (by omega), Transform_for4, if_pos (by omega),
    Transform_for4, if_pos (by omega), Transform_for4, if_pos (by omega), Transform_for4, if_neg (by omega)]
  simp [Transform_for4_body, wr, inb]

theorem transformFrom_eq_compress (t0 w0 st data : List UInt32) (ht : t0.length = 8) (hw : w0.length = 16) (hs : st.length = 8)
    (hd : data.length = 16) : transformFrom t0 w0 st data = (Spec.compress st data, true) := by
  obtain ⟨h0, h1, h2, h3, h4, h5, h6, h7, rfl⟩ := list8 st hs
  obtain ⟨a0, a1, a2, a3, a4, a5, a6, a7, rfl⟩ := list8 t0 ht
  let r0 : Spec.Regs := ⟨h0, h1, h2, h3, h4, h5, h6, h7⟩
  have hinit : RInv data r0 0 0 ⟨[h0, h1, h2, h3, h4, h5, h6, h7], w0, [h0, h1, h2, h3, h4, h5, h6, h7], true⟩ :=
    ⟨rfl, hw, rfl, rfl, by intro u hu; omega⟩
  have b1 := innerLoop_inv data hd r0 0 (by omega) (by omega) 16 0 _ rfl (by omega) hinit
  have a1 := RInv_next _ _ _ _ b1.1
  have b2 := innerLoop_inv data hd r0 16 (by omega) (by omega) 16 0 _ rfl (by omega) a1
  have a2 := RInv_next _ _ _ _ b2.1
  have b3 := innerLoop_inv data hd r0 32 (by omega) (by omega) 16 0 _ rfl (by omega) a2
  have a3 := RInv_next _ _ _ _ b3.1
  have b4 := innerLoop_inv data hd r0 48 (by omega) (by omega) 16 0 _ rfl (by omega) a3
  have a4 := RInv_next _ _ _ _ b4.1
  have hS := b4.2
  rw [b3.2, b2.2, b1.2] at hS
  unfold transformFrom
  simp only [Sha256.Transform, for1_eq, outerLoop_eq]
  generalize Transform_for3 data 48 0 (Transform_for3 data 32 0 (Transform_for3 data 16 0 (Transform_for3 data 0 0
    ⟨[h0, h1, h2, h3, h4, h5, h6, h7], w0, [h0, h1, h2, h3, h4, h5, h6, h7], true⟩))) = sF at a4 hS ⊢
  have hr := a4.regs
  simp only [Nat.add_zero] at hr
  obtain ⟨u0, u1, u2, u3, u4, u5, u6, u7, hU⟩ := list8 sF.T a4.hT
  have hc : Spec.compress [h0, h1, h2, h3, h4, h5, h6, h7] data =
      let r := Spec.rounds (Spec.schedule data) 64 r0
      [r.a + h0, r.b + h1, r.c + h2, r.d + h3, r.e + h4, r.f + h5, r.g + h6, r.h + h7] := rfl
  rw [hc, show (0 + 16 + 16 + 16 + 16 : Nat) = 64 from rfl] at *
  obtain ⟨T, W, S, ok⟩ := sF
  simp only at hU hS
  subst hU hS
  have hok : ok = true := a4.ok
  subst hok
  rw [for4_eq]
  simp only [← hr, regsAt]
  simp [UInt32.add_comm]

theorem transform_eq_compress (st data : List UInt32) (hs : st.length = 8) (hd : data.length = 16) :
    transform st data = (Spec.compress st data, true) :=
  transformFrom_eq_compress _ _ st data (by simp) (by simp) hs hd

end Nstd.Sha
