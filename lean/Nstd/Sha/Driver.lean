import Nstd.Common.Basic
import Nstd.Sha.Model
import Nstd.Sha.ModelU2
import Nstd.Generated.Sha256Body
import Nstd.Sha.Spec
/-
  Line protocol of the Sha area (property C17).  State: one hasher object.
     reset            a freshly constructed hasher                       -> ok
     update <hex>     sha.update(bytes)                                  -> ok
     final            sha.finalize(digest)                               -> <digest hex>
     rst              sha.reset()                                        -> ok
     hash <hex>       Sha256::hash                                       -> <digest hex>
     hmac <key> <msg> Sha256::hmac                                       -> <digest hex>
     spec <hex>       model side: FIPS 180-4 spec (`Spec.sha256`); real side: Sha256::hash
     spechmac <k> <m> model side: RFC 2104 spec (`Spec.hmacSha256`); real side: Sha256::hmac
     updatenull / hashnull / hmacnullkey <msg> / hmacnullmsg <key>
                      real side: the empty input is passed as (nullptr, 0); model side: the empty list
     setcount <n>     white box: `count = n` (n a multiple of 64 below 2^64; the buffer then holds nothing)
     fork / assign    copy of the hasher mid-stream into the second object (copy constructor / copy assignment) -> ok
     swap             the second object becomes the active one and vice versa                              -> ok
     variant rolled|unroll|u2  which build configuration of Sha256.cpp the following `xform` lines model (a harness answers
                      `ok` only for the configuration it was compiled in); `reset` returns to `rolled`   -> ok
     xform <state32> <block64>   white box: one `Transform` call on an arbitrary chaining value: a scratch hasher gets
                      `state` := the 8 big-endian words, count 0, `update(block)`; prints the 8 state words   -> <hex>
                      (model side: the generated `Transform` of the selected configuration)
  A digest line is `FAULT` when the model's ghost flag recorded an out-of-range array read.
  The observable is the digest; `update`/`rst` print `ok` only.
  `update`/`updatenull`/`final`/`rst`/`hash`/`hmac`/`hmacnullkey`/`hmacnullmsg` execute the bodies TRANSLATED from the sources
  (`Nstd.Generated.Sha256Body`); `hmac` starts its four uninitialised local arrays with an input-dependent poison pattern.
-/
open Nstd.Common
namespace Nstd.Sha

def toBytes (l : List Nat) : List UInt8 := l.map UInt8.ofNat
def hexOf (l : List UInt8) : String := toHex (l.map UInt8.toNat)

/-- a digest, or `FAULT` when the model recorded an out-of-range array read -/
def digestLine (ok : Bool) (d : List UInt8) : String := if ok then hexOf d else "FAULT"

/-- digest bytes from the TRANSLATED `Sha256::hash`, ghost flag from the model's hasher -/
def hashLine (b : List UInt8) : String :=
  let r := finalize (update init b)
  digestLine r.2.ok (Nstd.Generated.Sha256Body.hash b)

/-- the TRANSLATED `Sha256::hmac`; its four local arrays are uninitialised in C++: they start with a poison pattern that
varies with the input (the result does not depend on it: `hmac_translated_eq_rfc2104`) -/
def hmacLine (k m : List UInt8) : String :=
  let poison := UInt8.ofNat (0xA5 + 7 * k.length + m.length)
  let r := Nstd.Generated.Sha256Body.hmac (List.replicate 64 poison) (List.replicate 64 (poison + 1)) (List.replicate 64 (poison + 2))
    (List.replicate 32 (poison + 3)) k m
  digestLine r.2 r.1

/-- the words of a big-endian byte string (`xform`) -/
def wordsOf (b : List UInt8) : List UInt32 :=
  (List.range (b.length / 4)).map fun i =>
    ((b.getD (4 * i) 0).toUInt32 <<< 24) + ((b.getD (4 * i + 1) 0).toUInt32 <<< 16) +
    ((b.getD (4 * i + 2) 0).toUInt32 <<< 8) + (b.getD (4 * i + 3) 0).toUInt32

/-- driver state: the hasher object and the selected build configuration -/
structure DState where
  sha : Sha
  /-- build configuration selected by `variant`: 0 rolled, 1 `_SHA256_UNROLL`, 2 `_SHA256_UNROLL2` -/
  cfg : Nat := 0
  /-- the second object (a copy taken by `fork`/`assign`; a fresh hasher before) -/
  other : Sha

def stepSha (st : Sha) (ws : List String) : Sha × String :=
  match ws with
  | ["rst"] => (Nstd.Generated.Sha256Body.reset st, "ok")
  | ["final"] => let r := Nstd.Generated.Sha256Body.finalize st; (r.2, digestLine r.2.ok r.1)
  | ["setcount", n] =>
    match n.toNat? with
    | some n => if n % 64 = 0 ∧ n < 2 ^ 64 then ({ st with count := UInt64.ofNat n }, "ok") else (st, "bad-op")
    | none => (st, "bad-op")
  | ["updatenull"] => (Nstd.Generated.Sha256Body.update st [], "ok")
  | ["hashnull"] => (st, hashLine [])
  | ["hmacnullkey", m] =>
    match fromHex m with
    | some m => (st, hmacLine [] (toBytes m))
    | none => (st, "bad-op")
  | ["hmacnullmsg", k] =>
    match fromHex k with
    | some k => (st, hmacLine (toBytes k) [])
    | none => (st, "bad-op")
  | ["update", d] =>
    match fromHex d with
    | some b => (Nstd.Generated.Sha256Body.update st (toBytes b), "ok")
    | none => (st, "bad-op")
  | ["hash", d] =>
    match fromHex d with
    | some b => (st, hashLine (toBytes b))
    | none => (st, "bad-op")
  | ["spec", d] =>
    match fromHex d with
    | some b => (st, hexOf (Spec.sha256 (toBytes b)))
    | none => (st, "bad-op")
  | ["hmac", k, m] =>
    match fromHex k, fromHex m with
    | some k, some m => (st, hmacLine (toBytes k) (toBytes m))
    | _, _ => (st, "bad-op")
  | ["spechmac", k, m] =>
    match fromHex k, fromHex m with
    | some k, some m => (st, hexOf (Spec.hmacSha256 (toBytes k) (toBytes m)))
    | _, _ => (st, "bad-op")
  | _ => (st, "bad-op")

def stepLine (st : DState) (ws : List String) : DState × String :=
  match ws with
  | ["reset"] => ({ sha := init, other := init, cfg := 0 }, "ok")
  | ["fork"] => ({ st with other := st.sha }, "ok")
  | ["assign"] => ({ st with other := st.sha }, "ok")
  | ["swap"] => ({ st with sha := st.other, other := st.sha }, "ok")
  | ["variant", "rolled"] => ({ st with cfg := 0 }, "ok")
  | ["variant", "unroll"] => ({ st with cfg := 1 }, "ok")
  | ["variant", "u2"] => ({ st with cfg := 2 }, "ok")
  | ["xform", s, b] =>
    match fromHex s, fromHex b with
    | some s, some b =>
      if s.length = 32 ∧ b.length = 64 then
        let r := if st.cfg = 2 then transformU2 (wordsOf (toBytes s)) (data32 (toBytes b))
                 else if st.cfg = 1 then transformU1 (wordsOf (toBytes s)) (data32 (toBytes b))
                 else transform (wordsOf (toBytes s)) (data32 (toBytes b))
        (st, digestLine r.2 (digestOf r.1))
      else (st, "bad-op")
    | _, _ => (st, "bad-op")
  | _ => let r := stepSha st.sha ws; ({ st with sha := r.1 }, r.2)

end Nstd.Sha

def main : IO Unit := Nstd.Common.ioLoop ({ sha := Nstd.Sha.init, other := Nstd.Sha.init, cfg := 0 } : Nstd.Sha.DState) Nstd.Sha.stepLine
