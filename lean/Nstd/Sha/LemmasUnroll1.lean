import Nstd.Sha.LemmasTransform
import Nstd.Generated.Sha256U1
/-
  The `_SHA256_UNROLL` build configuration of `Transform` (generated into `Nstd/Generated/Sha256U1.lean` from the
  current sources compiled with `-D_SHA256_UNROLL`, as a delta of the base configuration): same array `T` and
  same macro `R(i)`, but `RX_8(0); RX_8(8);` (`RX_8(i)` = `R(i+0); … R(i+7);`) instead of the `i` loop.
-/
namespace Nstd.Sha
open Nstd.Generated Nstd.Generated.Sha256
set_option linter.unusedSimpArgs false

/-- `RX_8(i)` for `i = 0, 8`: eight rounds -/
theorem RX8_u1_inv (data : List UInt32) (hd : data.length = 16) (r0 : Spec.Regs) (j i0 : Nat) (hj : j % 16 = 0) (hj64 : j < 64)
    (hi : i0 = 0 ∨ i0 = 8) (i : UInt32) (hiu : i = UInt32.ofNat i0) (s : RS) (h : RInv data r0 j i0 s) :
    RInv data r0 j (i0 + 8) (Sha256U1.RX_8 Sha256.K data (UInt32.ofNat j) i s) ∧
    (Sha256U1.RX_8 Sha256.K data (UInt32.ofNat j) i s).state = s.state := by
  subst hiu
  have e1 := R_inv data hd r0 j i0 hj hj64 (by omega) s h
  have e2 := R_inv data hd r0 j (i0 + 1) hj hj64 (by omega) _ e1
  have e3 := R_inv data hd r0 j (i0 + 1 + 1) hj hj64 (by omega) _ e2
  have e4 := R_inv data hd r0 j (i0 + 1 + 1 + 1) hj hj64 (by omega) _ e3
  have e5 := R_inv data hd r0 j (i0 + 1 + 1 + 1 + 1) hj hj64 (by omega) _ e4
  have e6 := R_inv data hd r0 j (i0 + 1 + 1 + 1 + 1 + 1) hj hj64 (by omega) _ e5
  have e7 := R_inv data hd r0 j (i0 + 1 + 1 + 1 + 1 + 1 + 1) hj hj64 (by omega) _ e6
  have e8 := R_inv data hd r0 j (i0 + 1 + 1 + 1 + 1 + 1 + 1 + 1) hj hj64 (by omega) _ e7
  simp only [Sha256U1.RX_8, Sha256U1.RX_8_1, Sha256U1.RX_8_2, Sha256U1.RX_8_3, Sha256U1.RX_8_4, Sha256U1.RX_8_5,
    Sha256U1.RX_8_6, Sha256U1.RX_8_7, Sha256U1.RX_8_8, R_state]
  refine ⟨?_, trivial⟩
  rcases hi with rfl | rfl
  · have k : (UInt32.ofNat 0 + 0 = UInt32.ofNat 0) ∧ (UInt32.ofNat 0 + 1 = UInt32.ofNat (0 + 1)) ∧
        (UInt32.ofNat 0 + 2 = UInt32.ofNat (0 + 1 + 1)) ∧ (UInt32.ofNat 0 + 3 = UInt32.ofNat (0 + 1 + 1 + 1)) ∧
        (UInt32.ofNat 0 + 4 = UInt32.ofNat (0 + 1 + 1 + 1 + 1)) ∧ (UInt32.ofNat 0 + 5 = UInt32.ofNat (0 + 1 + 1 + 1 + 1 + 1)) ∧
        (UInt32.ofNat 0 + 6 = UInt32.ofNat (0 + 1 + 1 + 1 + 1 + 1 + 1)) ∧
        (UInt32.ofNat 0 + 7 = UInt32.ofNat (0 + 1 + 1 + 1 + 1 + 1 + 1 + 1)) := by decide
    rw [k.1, k.2.1, k.2.2.1, k.2.2.2.1, k.2.2.2.2.1, k.2.2.2.2.2.1, k.2.2.2.2.2.2.1, k.2.2.2.2.2.2.2]
    exact e8
  · have k : (UInt32.ofNat 8 + 0 = UInt32.ofNat 8) ∧ (UInt32.ofNat 8 + 1 = UInt32.ofNat (8 + 1)) ∧
        (UInt32.ofNat 8 + 2 = UInt32.ofNat (8 + 1 + 1)) ∧ (UInt32.ofNat 8 + 3 = UInt32.ofNat (8 + 1 + 1 + 1)) ∧
        (UInt32.ofNat 8 + 4 = UInt32.ofNat (8 + 1 + 1 + 1 + 1)) ∧ (UInt32.ofNat 8 + 5 = UInt32.ofNat (8 + 1 + 1 + 1 + 1 + 1)) ∧
        (UInt32.ofNat 8 + 6 = UInt32.ofNat (8 + 1 + 1 + 1 + 1 + 1 + 1)) ∧
        (UInt32.ofNat 8 + 7 = UInt32.ofNat (8 + 1 + 1 + 1 + 1 + 1 + 1 + 1)) := by decide
    rw [k.1, k.2.1, k.2.2.1, k.2.2.2.1, k.2.2.2.2.1, k.2.2.2.2.2.1, k.2.2.2.2.2.2.1, k.2.2.2.2.2.2.2]
    exact e8

/-- body of `for (j = 0; j < 64; j += 16) { RX_8(0); RX_8(8); }` -/
theorem body_u1_inv (data : List UInt32) (hd : data.length = 16) (r0 : Spec.Regs) (j : Nat) (hj : j % 16 = 0) (hj64 : j < 64)
    (s : RS) (h : RInv data r0 j 0 s) :
    RInv data r0 (j + 16) 0 (Sha256U1.Transform_for2_body data j s) ∧ (Sha256U1.Transform_for2_body data j s).state = s.state := by
  have e0 := RX8_u1_inv data hd r0 j 0 hj hj64 (Or.inl rfl) 0 (by decide) s h
  have e1 := RX8_u1_inv data hd r0 j 8 hj hj64 (Or.inr rfl) 8 (by decide) _ e0.1
  exact ⟨RInv_next _ _ _ _ e1.1, by rw [show (Sha256U1.Transform_for2_body data j s).state = _ from e1.2, e0.2]⟩

theorem for2_u1_eq (data : List UInt32) (s : RS) :
    Sha256U1.Transform_for2 data 0 s =
      Sha256U1.Transform_for2_body data 48 (Sha256U1.Transform_for2_body data 32
        (Sha256U1.Transform_for2_body data 16 (Sha256U1.Transform_for2_body data 0 s))) := by
  rw [Sha256U1.Transform_for2, if_pos (by omega), Sha256U1.Transform_for2, if_pos (by omega), Sha256U1.Transform_for2,
    if_pos (by omega), Sha256U1.Transform_for2, if_pos (by omega), Sha256U1.Transform_for2, if_neg (by omega)]

/-- the generated loop `for (j = 0; j < 8; j++) state[j] += T[j];` of this configuration -/
theorem for3_u1_eq (data : List UInt32) (u0 u1 u2 u3 u4 u5 u6 u7 h0 h1 h2 h3 h4 h5 h6 h7 : UInt32) (W : List UInt32) :
    Sha256U1.Transform_for3 data 0 ⟨[u0, u1, u2, u3, u4, u5, u6, u7], W, [h0, h1, h2, h3, h4, h5, h6, h7], true⟩ =
      ⟨[u0, u1, u2, u3, u4, u5, u6, u7], W,
       [h0 + u0, h1 + u1, h2 + u2, h3 + u3, h4 + u4, h5 + u5, h6 + u6, h7 + u7], true⟩ := by
  rw [Sha256U1.Transform_for3, if_pos (by omega), Sha256U1.Transform_for3, if_pos (by omega), Sha256U1.Transform_for3, if_pos (by omega),
    Sha256U1.Transform_for3, if_pos (by omega), Sha256U1.Transform_for3, if_pos (by omega), Sha256U1.Transform_for3, if_pos (by omega),
    Sha256U1.Transform_for3, if_pos (by omega), Sha256U1.Transform_for3, if_pos (by omega), Sha256U1.Transform_for3, if_neg (by omega)]
  simp [Sha256U1.Transform_for3_body, wr, inb]

/-- `Transform` of the `_SHA256_UNROLL` configuration is the FIPS 180-4 compression function; the initial content of
its local arrays `T`, `W` is arbitrary -/
theorem transformU1_eq_compress (t0 w0 st data : List UInt32) (ht : t0.length = 8) (hw : w0.length = 16) (hs : st.length = 8)
    (hd : data.length = 16) :
    (Sha256U1.Transform data ⟨t0, w0, st, true⟩).state = Spec.compress st data ∧
    (Sha256U1.Transform data ⟨t0, w0, st, true⟩).ok = true := by
  obtain ⟨h0, h1, h2, h3, h4, h5, h6, h7, rfl⟩ := list8 st hs
  obtain ⟨a0, a1, a2, a3, a4, a5, a6, a7, rfl⟩ := list8 t0 ht
  let r0 : Spec.Regs := ⟨h0, h1, h2, h3, h4, h5, h6, h7⟩
  have hinit : RInv data r0 0 0 ⟨[h0, h1, h2, h3, h4, h5, h6, h7], w0, [h0, h1, h2, h3, h4, h5, h6, h7], true⟩ :=
    ⟨rfl, hw, rfl, rfl, by intro u hu; omega⟩
  have b1 := body_u1_inv data hd r0 0 (by omega) (by omega) _ hinit
  have b2 := body_u1_inv data hd r0 (0 + 16) (by omega) (by omega) _ b1.1
  have b3 := body_u1_inv data hd r0 (0 + 16 + 16) (by omega) (by omega) _ b2.1
  have b4 := body_u1_inv data hd r0 (0 + 16 + 16 + 16) (by omega) (by omega) _ b3.1
  have a4 := b4.1
  have hS := b4.2
  rw [b3.2, b2.2, b1.2] at hS
  simp only [Sha256U1.Transform, for1_eq, for2_u1_eq]
  generalize Sha256U1.Transform_for2_body data 48 (Sha256U1.Transform_for2_body data 32
    (Sha256U1.Transform_for2_body data 16 (Sha256U1.Transform_for2_body data 0
      ⟨[h0, h1, h2, h3, h4, h5, h6, h7], w0, [h0, h1, h2, h3, h4, h5, h6, h7], true⟩))) = sF at a4 hS ⊢
  have hr := a4.regs
  simp only [Nat.add_zero] at hr
  obtain ⟨u0, u1, u2, u3, u4, u5, u6, u7, hU⟩ := list8 sF.T a4.hT
  have hc : Spec.compress [h0, h1, h2, h3, h4, h5, h6, h7] data =
      let r := Spec.rounds (Spec.schedule data) 64 r0
      [r.a + h0, r.b + h1, r.c + h2, r.d + h3, r.e + h4, r.f + h5, r.g + h6, r.h + h7] := rfl
  rw [hc, show (0 + 16 + 16 + 16 + 16 : Nat) = 64 from rfl] at *
  obtain ⟨T, W, S, ok⟩ := sF
  simp only at hU hS
  subst hU hS
  have hok : ok = true := a4.ok
  subst hok
  rw [for3_u1_eq]
  simp only [← hr, regsAt]
  simp [UInt32.add_comm]

end Nstd.Sha
