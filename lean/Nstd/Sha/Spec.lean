/-
  The standard, written from FIPS 180-4 (sections 2.2.2, 3.2, 4.1.2, 4.2.2, 5.1.1, 5.2.1, 5.3.3,
  6.2) and RFC 2104 (section 2), independently of the C++ code: the whole message is padded
  first, every block gets its full 64-entry message schedule, the working variables are the
  eight named registers a…h.  The constants are *defined* the way the standard defines them
  ("first thirty-two bits of the fractional parts of the cube roots of the first sixty-four
  prime numbers", "… of the square roots of the first eight prime numbers"), not copied.
  Core Lean only (the model driver evaluates the spec for the transcription tests).
-/
namespace Nstd.Sha.Spec

/-! ### 4.2.2 / 5.3.3 constants -/

def isPrime (n : Nat) : Bool := 2 ≤ n && (List.range n).all fun d => d < 2 || n % d != 0

/-- the first sixty-four prime numbers (2 … 311) -/
def primes64 : List Nat := (List.range 312).filter isPrime

/-- bisection: the largest `r` in `[lo, lo + 2^bits)` with `r ^ k ≤ n` (for `lo ^ k ≤ n`) -/
def rootBits (k n : Nat) : Nat → Nat → Nat
  | 0, lo => lo
  | bits + 1, lo => if (lo + 2 ^ bits) ^ k ≤ n then rootBits k n bits (lo + 2 ^ bits) else rootBits k n bits lo

/-- `⌊ n^(1/k) ⌋` for `n < 2^(48·k)` -/
def iroot (k n : Nat) : Nat := rootBits k n 48 0

/-- `r = ⌊ n^(1/k) ⌋` -/
def IsFloorRoot (k n r : Nat) : Prop := r ^ k ≤ n ∧ n < (r + 1) ^ k

/-- first 32 bits of the fractional part of the `k`-th root of `p`:
`⌊ p^(1/k) · 2^32 ⌋ mod 2^32 = ⌊ (p · 2^(32k))^(1/k) ⌋ mod 2^32` -/
def fracRootBits (k p : Nat) : UInt32 := UInt32.ofNat (iroot k (p * 2 ^ (32 * k)) % 2 ^ 32)

/-- K⁽²⁵⁶⁾₀ … K⁽²⁵⁶⁾₆₃ (4.2.2) -/
def K : List UInt32 := primes64.map (fracRootBits 3)

/-- H⁽⁰⁾ (5.3.3) -/
def H0 : List UInt32 := (primes64.take 8).map (fracRootBits 2)

/-! ### 3.2 / 4.1.2 functions on 32-bit words -/

def rotr (n : UInt32) (x : UInt32) : UInt32 := (x >>> n) ||| (x <<< (32 - n))
def shr (n : UInt32) (x : UInt32) : UInt32 := x >>> n

def Ch (x y z : UInt32) : UInt32 := (x &&& y) ^^^ (~~~x &&& z)
def Maj (x y z : UInt32) : UInt32 := (x &&& y) ^^^ (x &&& z) ^^^ (y &&& z)
def bigSigma0 (x : UInt32) : UInt32 := rotr 2 x ^^^ rotr 13 x ^^^ rotr 22 x
def bigSigma1 (x : UInt32) : UInt32 := rotr 6 x ^^^ rotr 11 x ^^^ rotr 25 x
def smallSigma0 (x : UInt32) : UInt32 := rotr 7 x ^^^ rotr 18 x ^^^ shr 3 x
def smallSigma1 (x : UInt32) : UInt32 := rotr 17 x ^^^ rotr 19 x ^^^ shr 10 x

/-! ### 5.1.1 padding, 5.2.1 parsing -/

/-- the 64-bit block "equal to the number ℓ expressed using a binary representation", big-endian -/
def be64 (n : Nat) : List UInt8 :=
  (List.range 8).map fun k => UInt8.ofNat (n / 2 ^ (8 * (7 - k)) % 256)

/-- number of zero *bytes* after the byte `0x80` (= bit "1" followed by seven of the `k` zero
bits): smallest `z ≥ 0` with `len + 1 + z ≡ 56 (mod 64)`, i.e. `ℓ + 1 + k ≡ 448 (mod 512)` -/
def zeroBytes (len : Nat) : Nat := (119 - len % 64) % 64

def pad (msg : List UInt8) : List UInt8 :=
  msg ++ [0x80] ++ List.replicate (zeroBytes msg.length) 0 ++ be64 (8 * msg.length)

/-- big-endian word of four bytes -/
def beWord (b0 b1 b2 b3 : UInt8) : UInt32 :=
  UInt32.ofNat (b0.toNat * 2 ^ 24 + b1.toNat * 2 ^ 16 + b2.toNat * 2 ^ 8 + b3.toNat)

/-- the sixteen words M₀ … M₁₅ of a 64-byte block -/
def blockWords (b : List UInt8) : List UInt32 :=
  (List.range 16).map fun i =>
    beWord (b.getD (4 * i) 0) (b.getD (4 * i + 1) 0) (b.getD (4 * i + 2) 0) (b.getD (4 * i + 3) 0)

/-! ### 6.2.2 hash computation -/

/-- step 1: one more entry of the message schedule -/
def scheduleStep (w : List UInt32) : List UInt32 :=
  let t := w.length
  w ++ [smallSigma1 (w.getD (t - 2) 0) + w.getD (t - 7) 0 + smallSigma0 (w.getD (t - 15) 0) + w.getD (t - 16) 0]

/-- W₀ … W₆₃ -/
def schedule (m : List UInt32) : List UInt32 := Nat.repeat scheduleStep 48 m

structure Regs where
  (a b c d e f g h : UInt32)
deriving DecidableEq, Repr

/-- step 3, one value of `t` -/
def round (r : Regs) (kt wt : UInt32) : Regs :=
  let t1 := r.h + bigSigma1 r.e + Ch r.e r.f r.g + kt + wt
  let t2 := bigSigma0 r.a + Maj r.a r.b r.c
  { h := r.g, g := r.f, f := r.e, e := r.d + t1, d := r.c, c := r.b, b := r.a, a := t1 + t2 }

def rounds (w : List UInt32) (n : Nat) (r : Regs) : Regs :=
  (List.range n).foldl (fun r t => round r (K.getD t 0) (w.getD t 0)) r

/-- steps 1–4 for one block: H⁽ⁱ⁾ from H⁽ⁱ⁻¹⁾ and M⁽ⁱ⁾ -/
def compress (h : List UInt32) (m : List UInt32) : List UInt32 :=
  let w := schedule m
  let r0 : Regs := ⟨h.getD 0 0, h.getD 1 0, h.getD 2 0, h.getD 3 0, h.getD 4 0, h.getD 5 0, h.getD 6 0, h.getD 7 0⟩
  let r := rounds w 64 r0
  [r.a + h.getD 0 0, r.b + h.getD 1 0, r.c + h.getD 2 0, r.d + h.getD 3 0,
   r.e + h.getD 4 0, r.f + h.getD 5 0, r.g + h.getD 6 0, r.h + h.getD 7 0]

/-- all complete 64-byte blocks of `bytes`, in order (a trailing partial block is ignored; the
padded message has none) -/
def hashBlocks (h : List UInt32) (bytes : List UInt8) : List UInt32 :=
  if bytes.length < 64 then h
  else hashBlocks (compress h (blockWords (bytes.take 64))) (bytes.drop 64)
termination_by bytes.length
decreasing_by simp only [List.length_drop]; omega

/-- big-endian bytes of a word -/
def wordBytes (w : UInt32) : List UInt8 :=
  [UInt8.ofNat (w.toNat / 2 ^ 24), UInt8.ofNat (w.toNat / 2 ^ 16 % 256),
   UInt8.ofNat (w.toNat / 2 ^ 8 % 256), UInt8.ofNat (w.toNat % 256)]

/-- SHA-256 of a byte string: `H₀⁽ᴺ⁾ ‖ … ‖ H₇⁽ᴺ⁾` -/
def sha256 (msg : List UInt8) : List UInt8 :=
  (hashBlocks H0 (pad msg)).flatMap wordBytes

/-! ### RFC 2104 -/

/-- B = 64, the block length of SHA-256 -/
def B : Nat := 64

/-- "keys longer than B bytes are first hashed using H"; "append zeros to the end of K to create a
B byte string" -/
def hmacKey (key : List UInt8) : List UInt8 :=
  let k := if key.length > B then sha256 key else key
  k ++ List.replicate (B - k.length) 0

/-- `H(K XOR opad, H(K XOR ipad, text))` with ipad = 0x36 …, opad = 0x5C … -/
def hmacSha256 (key text : List UInt8) : List UInt8 :=
  let k := hmacKey key
  sha256 (k.map (· ^^^ 0x5c) ++ sha256 (k.map (· ^^^ 0x36) ++ text))

end Nstd.Sha.Spec
