import Nstd.Sha.Model
import Nstd.Sha.Spec
namespace Nstd.Sha
open Nstd.Generated

/-- the table `K[64]` of the current sources is the table of FIPS 180-4 §4.2.2 (cube roots of the
first 64 primes) -/
theorem K_is_fips : Sha256.K = Spec.K := by decide +kernel

/-- the state written by `reset()` is H⁽⁰⁾ of FIPS 180-4 §5.3.3 (square roots of the first 8 primes) -/
theorem H0_is_fips : Sha256.H0 = Spec.H0 ∧ Sha256.count0 = 0 := by decide +kernel

end Nstd.Sha
