import Nstd.Sha.LemmasHmac
import Nstd.Sha.LemmasUnroll2
import Nstd.Sha.LemmasUnroll1
import Nstd.Sha.ModelU2
import Nstd.Generated.Sha256BodyProofs
import Nstd.Sha.PropsSpec
/-
  Property C17: SHA-256 and HMAC-SHA-256 equal the standard for every input and chunking.

  Model: `Nstd/Sha/Model.lean` over `Nstd/Generated/Sha256Tables.lean` (regenerated from the current
  C++ sources on every run).  Standard: `Nstd/Sha/Spec.lean` (FIPS 180-4, RFC 2104).
  Every theorem below quantifies over ALL messages / chunkings / keys; the only hypothesis is the
  length bound `< 2^61` bytes (beyond it the 64-bit bit count `count << 3` of the code wraps, which
  FIPS 180-4 excludes as well: messages are shorter than 2^64 bits).
-/
namespace Nstd.Sha
open Nstd.Generated

/-- the table `Sha256::Private::K[64]` of the current sources is K⁽²⁵⁶⁾ of FIPS 180-4 §4.2.2 -/
theorem K_is_fips : Sha256.K = Spec.K := genK_eq

/-- the state and count written by `Sha256::reset()` are H⁽⁰⁾ of FIPS 180-4 §5.3.3 and 0 -/
theorem H0_is_fips : Sha256.H0 = Spec.H0 ∧ Sha256.count0 = 0 := ⟨genH0_eq, genCount0_eq⟩

/-- the constants of `Sha256.hpp` used by `hmac` are B = 64, L = 32, opad = 0x5C, ipad = 0x36 (RFC 2104 §2) -/
theorem hmac_constants_are_rfc2104 :
    Sha256.blockSize = Spec.B ∧ Sha256.digestSize = 32 ∧ Sha256.hmacOpad = 0x5c ∧ Sha256.hmacIpad = 0x36 := by
  decide

/-- every array index computed by the macros stays inside `T[8]`, `W[16]`, `data[16]`, `K[64]`
(the `unsigned` wrap-around of `0-(i)`, `i-2`, … followed by the masks), and the buffer position
`(UInt32)count & 0x3F` inside `buffer[64]` -/
theorem macro_indices_in_range :
    (∀ i, i < 16 → ∀ k, k < 8 → ((UInt32.ofNat k - UInt32.ofNat i) &&& 7).toNat < 8) ∧
    (∀ i, i < 16 → (UInt32.ofNat i &&& 15).toNat < 16 ∧ ((UInt32.ofNat i - 2) &&& 15).toNat < 16 ∧
      ((UInt32.ofNat i - 7) &&& 15).toNat < 16 ∧ ((UInt32.ofNat i - 15) &&& 15).toNat < 16 ∧ (UInt32.ofNat i).toNat < 16) ∧
    (∀ j, j < 64 → j % 16 = 0 → ∀ i, i < 16 → (UInt32.ofNat i + UInt32.ofNat j).toNat < 64) ∧
    (∀ p : Sha, bufferPos p < 64) := by
  refine ⟨by decide +kernel, by decide +kernel, by decide +kernel, fun p => ?_⟩
  rw [bufferPos_eq]; omega

/-- the macro bodies `S0 S1 s0 s1 Ch Maj` of the current sources are Σ₀ Σ₁ σ₀ σ₁ Ch Maj of §4.1.2,
for all 32-bit words (proved bit by bit whenever they are not literally written like the standard:
LemmasTransform `word_bits`) -/
theorem word_functions_are_fips (x y z : UInt32) :
    Sha256.S0 x = Spec.bigSigma0 x ∧ Sha256.S1 x = Spec.bigSigma1 x ∧
    Sha256.s0 x = Spec.smallSigma0 x ∧ Sha256.s1 x = Spec.smallSigma1 x ∧
    Sha256.Ch x y z = Spec.Ch x y z ∧ Sha256.Maj x y z = Spec.Maj x y z :=
  ⟨S0_eq x, S1_eq x, s0_eq x, s1_eq x, Ch_eq x y z, Maj_eq x y z⟩

/-- one `Transform` call (the GENERATED translation of the function body: copy loops, the `j`/`i` loops, macro `R`
over the rolling 16-word window and the rotating register index) is the compression function of FIPS 180-4
§6.2.2, for every chaining value and every block -/
theorem transform_eq_fips (state data : List UInt32) (hs : state.length = 8) (hd : data.length = 16) :
    transform state data = (Spec.compress state data, true) :=
  transform_eq_compress state data hs hd

/-- the result of `Transform` does not depend on the (in C++ uninitialised) initial content of its
local arrays `T[8]` and `W[16]`: every cell is written before it is read -/
theorem transform_ignores_uninitialised_locals (t0 w0 state data : List UInt32) (ht : t0.length = 8) (hw : w0.length = 16)
    (hs : state.length = 8) (hd : data.length = 16) :
    transformFrom t0 w0 state data = (Spec.compress state data, true) :=
  transformFrom_eq_compress t0 w0 state data ht hw hs hd

/-- the build configuration `-D_SHA256_UNROLL` (`RX_8(0); RX_8(8);` with `RX_8(i)` = `R(i+0); … R(i+7);` instead of the
`i` loop; generated into `Sha256U1.lean` from the current sources as a delta of the base configuration) computes
what the rolled form computes, for every chaining value, block and initial content of `T`, `W` -/
theorem transform_unroll_eq (t0 w0 state data : List UInt32) (ht : t0.length = 8) (hw : w0.length = 16)
    (hs : state.length = 8) (hd : data.length = 16) :
    ((Sha256U1.Transform data ⟨t0, w0, state, true⟩).state, (Sha256U1.Transform data ⟨t0, w0, state, true⟩).ok) =
      transform state data ∧
    transformU1 state data = transform state data := by
  have h := transformU1_eq_compress t0 w0 state data ht hw hs hd
  have h' := transformU1_eq_compress (List.replicate 8 0) (List.replicate 16 0) state data (by simp) (by simp) hs hd
  refine ⟨by rw [transform_eq_compress _ _ hs hd, h.1, h.2], ?_⟩
  rw [transform_eq_compress _ _ hs hd]
  unfold transformU1
  simp only [h'.1, h'.2]

/-- the second build configuration (`-D_SHA256_UNROLL2`: eight scalar registers, nine-parameter macro `R` with
permuted arguments, `RX_8(0); RX_8(8);` instead of the `i` loop; generated into `Sha256U2.lean` from the
current sources) computes exactly what the rolled form computes, for every chaining value, every block and
every initial content of its uninitialised locals - so every digest theorem below holds for both configurations
(everything outside `Transform` is the same text in both; the translator checks the tables and macros it shares) -/
theorem transform_unroll2_eq (data : List UInt32) (st0 : Sha256U2.RS) (hW : st0.W.length = 16)
    (hs : st0.state.length = 8) (hd : data.length = 16) (hok : st0.ok = true) :
    ((Sha256U2.Transform data st0).state, (Sha256U2.Transform data st0).ok) = transform st0.state data ∧
    transformU2 st0.state data = transform st0.state data ∧
    Sha256U2.K = Sha256.K ∧ Sha256U2.H0 = Sha256.H0 := by
  have h := transformU2_eq_compress data st0 hW hs hd hok
  refine ⟨?_, ?_, by decide +kernel, by decide +kernel⟩
  · rw [transform_eq_compress _ _ hs hd, h.1, h.2]
  · have h' := transformU2_eq_compress data
      { W := List.replicate 16 0, state := st0.state, a := 0, b := 0, c := 0, d := 0, e := 0, f := 0, g := 0, h := 0, ok := true }
      (by simp) hs hd rfl
    rw [transform_eq_compress _ _ hs hd]
    unfold transformU2
    simp only [h'.1, h'.2]

/-- for every way of splitting a message over `update` calls, `finalize` yields the FIPS digest -/
theorem streaming (chunks : List (List UInt8)) (hlen : chunks.flatten.length < 2 ^ 61) :
    (finalize (chunks.foldl update init)).1 = Spec.sha256 chunks.flatten :=
  (digest_chunks init ((inv_nil_iff _).mp inv_init) chunks hlen).1

/-- the bodies of `Sha256::Private::WriteByteBlock`, `Sha256::update`, `Sha256::finalize`, `Sha256::reset` and the static helper `Sha256::hash` as TRANSLATED from the
current sources (`Nstd/Generated/Sha256Body.lean`: typed statement translator - locals `curBufferPos : UInt32`,
`lenInBits : UInt64`, casts, `curBufferPos++` inside an index, `*data++`/`size--` as a walk over the input list,
`*digest++ = …` as output bytes, `while (curBufferPos != 64 - 8)` with an iteration budget of 2^32) are the
hand-written functions of `Model.lean` the other theorems talk about - for every object state (no well-formedness
hypothesis; for `reset`, whose eight checked writes need the eight state words to exist: every object with `state.length = 8`)
and every input; in particular the `while` loop never uses up its budget -/
theorem generated_bodies_are_the_model (p : Sha) (data : List UInt8) :
    Sha256Body.WriteByteBlock p = writeByteBlock p ∧ Sha256Body.update p data = update p data ∧
    Sha256Body.finalize p = finalize p ∧ (p.state.length = 8 → Sha256Body.reset p = reset p) ∧
    Sha256Body.hash data = hash data :=
  ⟨WriteByteBlock_eq p, gen_update_eq p data, gen_finalize_eq p, gen_reset_eq p, gen_hash_eq data⟩

/-- hence the digest theorem for the translated code itself: every chunking, fed to the generated `update` and
finished by the generated `finalize`, gives the FIPS digest -/
theorem streaming_generated (chunks : List (List UInt8)) (hlen : chunks.flatten.length < 2 ^ 61) :
    (Sha256Body.finalize (chunks.foldl Sha256Body.update init)).1 = Spec.sha256 chunks.flatten := by
  have hu : Sha256Body.update = update := funext fun p => funext fun d => gen_update_eq p d
  rw [hu, gen_finalize_eq]
  exact streaming chunks hlen

/-- beyond the standard's range, for messages of ANY length: the byte counter is a `uint64` and the bit length is `count << 3`.
For 2^61 ≤ length (where FIPS 180-4 defines nothing: its length field holds < 2^64 BITS) the code still computes the formula of
the standard with the low 64 bits of the bit length in the length field - which is what `Spec.sha256` does there too
(`Spec.be64` keeps the low 64 bits, `length_field_wraps`).  From 2^64 bytes on `count` itself wraps (`byte_counter_wraps`); that
changes nothing: the buffer position `count & 0x3F` is still `length % 64` (64 divides 2^64) and the length field only ever held
`8·length mod 2^64`.  So for every chunking of every message, without any bound, `finalize` = `Spec.sha256`; below 2^61 bytes
that is the FIPS digest (`streaming`). -/
theorem streaming_any_length (chunks : List (List UInt8)) :
    (finalize (chunks.foldl update init)).1 = Spec.sha256 chunks.flatten ∧
    (Sha256Body.finalize (chunks.foldl Sha256Body.update init)).1 = Spec.sha256 chunks.flatten := by
  have := digest_chunks_from [] init inv_init chunks
  have hu : Sha256Body.update = update := funext fun p => funext fun d => gen_update_eq p d
  rw [hu, gen_finalize_eq]
  simpa using this.1

/-- what the 64-bit byte counter holds after any sequence of `update` calls: the number of bytes fed modulo 2^64; and the
buffer position derived from it is the number of bytes modulo 64 whatever the length -/
theorem byte_counter_wraps (chunks : List (List UInt8)) :
    (chunks.foldl update init).count.toNat = chunks.flatten.length % 2 ^ 64 ∧
    bufferPos (chunks.foldl update init) = chunks.flatten.length % 64 := by
  have hI := foldl_update_inv transformOK chunks [] init inv_init
  rw [List.nil_append] at hI
  obtain ⟨_, _, _, _, _, _, _, _, _, hcnt, _⟩ := hI
  refine ⟨hcnt, ?_⟩
  rw [bufferPos_eq, hcnt]; omega

/-- the length field of the padding as the spec writes it: only the low 64 bits of the bit length count -/
theorem length_field_wraps (len : Nat) : Spec.be64 (8 * len) = Spec.be64 ((8 * len) % 2 ^ 64) := by
  simp only [Spec.be64, List.map_inj_left, List.mem_range]
  intro k hk
  congr 1
  have h8 : (7 - k) ≤ 7 := by omega
  have hcases : 7 - k = 0 ∨ 7 - k = 1 ∨ 7 - k = 2 ∨ 7 - k = 3 ∨ 7 - k = 4 ∨ 7 - k = 5 ∨ 7 - k = 6 ∨ 7 - k = 7 := by omega
  rcases hcases with h | h | h | h | h | h | h | h <;> rw [h] <;> omega

/-- a hasher copied mid-stream (`Sha256` is copyable: implicit member-wise copy constructor / assignment; the model's
objects are values): after any common prefix `pre`, the original continued with `a` and the copy continued with `b`
give the digests of `pre ++ a` and `pre ++ b` - neither continuation disturbs the other (in the model by construction;
on the real code by the correspondence ops `fork`/`assign`/`swap`) - and both objects are reusable afterwards; no length bound
(`Spec.sha256` is the FIPS digest below 2^61 bytes and the FIPS formula with the wrapped length field beyond, `streaming_any_length`) -/
theorem copy_midstream (pre a b : List (List UInt8)) :
    let p := pre.foldl update init
    let copy := p
    (finalize (a.foldl update p)).1 = Spec.sha256 (pre.flatten ++ a.flatten) ∧
    (finalize (b.foldl update copy)).1 = Spec.sha256 (pre.flatten ++ b.flatten) ∧
    Reusable (finalize (a.foldl update p)).2 ∧ Reusable (finalize (b.foldl update copy)).2 := by
  intro p copy
  have hI : Inv pre.flatten p := by
    have := foldl_update_inv transformOK pre [] init inv_init
    simpa using this
  have h1 := digest_chunks_from pre.flatten p hI a
  have h2 := digest_chunks_from pre.flatten p hI b
  exact ⟨h1.1, h2.1, h1.2, h2.2⟩

/-- byte ↔ word conversions: `WriteByteBlock` assembles the sixteen words of a block big-endian (FIPS 180-4 §5.2.1:
`data32 buf = Spec.blockWords buf`, for every buffer content - the code reads single bytes and shifts, so no
alignment or host-endianness assumption enters), `finalize` emits each state word big-endian (§6.2.2 "H₀‖…‖H₇"),
and the 64-bit length is written big-endian byte by byte (`lenBytes` = `Spec.be64`) -/
theorem byte_word_assembly_is_big_endian (buf : List UInt8) (s0 s1 s2 s3 s4 s5 s6 s7 : UInt32) (c : UInt64) :
    data32 buf = Spec.blockWords buf ∧
    digestOf [s0, s1, s2, s3, s4, s5, s6, s7] = [s0, s1, s2, s3, s4, s5, s6, s7].flatMap Spec.wordBytes ∧
    lenLoop 8 56 (c <<< 3) (List.replicate 64 0) = List.replicate 56 0 ++ Spec.be64 (8 * c.toNat) := by
  refine ⟨data32_eq buf, digestOf_eq s0 s1 s2 s3 s4 s5 s6 s7, ?_⟩
  have := lenLoop_append 8 (c <<< 3) (List.replicate 56 0) (List.replicate 8 0) (by simp)
  simp only [List.length_replicate] at this
  rw [show List.replicate 64 (0 : UInt8) = List.replicate 56 0 ++ List.replicate 8 0 from by decide]
  rw [this, lenBytes_eq_all]
  simp

/-- `Sha256::hash` -/
theorem hash_eq_fips (m : List UInt8) (hlen : m.length < 2 ^ 61) : hash m = Spec.sha256 m := by
  have := streaming [m] (by simpa using hlen)
  simpa [hash] using this

/-- a hasher is reusable (`Reusable`: initial hash value, count 0, 64-byte buffer of arbitrary content,
no out-of-range read recorded)
when constructed, after `finalize()` and after `reset()` - whatever was fed before, of ANY length (the
last two conjuncts have no length hypothesis; only the digest statement carries the standard's
`< 2^61` bytes); and on every reusable hasher every chunking gives the FIPS digest -/
theorem reusable_after_finalize_or_reset :
    Reusable init ∧
    (∀ p : Sha, Reusable p → ∀ chunks : List (List UInt8), chunks.flatten.length < 2 ^ 61 →
      (finalize (chunks.foldl update p)).1 = Spec.sha256 chunks.flatten ∧
      Reusable (finalize (chunks.foldl update p)).2) ∧
    (∀ p : Sha, Reusable p → ∀ junk : List (List UInt8), Reusable (finalize (junk.foldl update p)).2) ∧
    (∀ p : Sha, Reusable p → ∀ junk : List (List UInt8), Reusable (reset (junk.foldl update p))) := by
  refine ⟨(inv_nil_iff _).mp inv_init, fun p hp chunks h => digest_chunks p hp chunks h,
    fun p hp junk => finalize_reusable _ (foldl_update_wellFormed junk p (reusable_wellFormed p hp)), fun p hp junk => ?_⟩
  have hw := foldl_update_wellFormed junk p (reusable_wellFormed p hp)
  exact (inv_nil_iff _).mp (inv_reset _ hw.1 hw.2.2)

/-- the model's ghost flag `ok` ("no array read so far was out of range": `state[i]`, `buffer[i*4+k]`,
`T[..] W[..] K[..] data[..]` inside `Transform`) stays true on every reusable hasher: through any
sequence of `update` calls of any total length, and through `finalize` (writes are covered by the
checked `wr`: an out-of-range write would destroy the array and falsify the digest theorems) -/
theorem no_out_of_range_read (p : Sha) (hp : Reusable p) (chunks : List (List UInt8)) :
    (chunks.foldl update p).ok = true ∧
    (chunks.flatten.length < 2 ^ 61 → (finalize (chunks.foldl update p)).2.ok = true) :=
  ⟨(foldl_update_wellFormed chunks p (reusable_wellFormed p hp)).2.2,
   fun h => (digest_chunks p hp chunks h).2.2.2.2⟩

/-- `Sha256::hmac` is HMAC (RFC 2104) over SHA-256 for every key (shorter than, equal to, longer
than the block size) and every message; the second component says that no array read of the call
(inside the hasher, and `hashKey[i]`) was out of range -/
theorem hmac_eq_rfc2104 (key msg : List UInt8) (hk : key.length < 2 ^ 61) (hm : msg.length + 64 < 2 ^ 61) :
    hmac key msg = (Spec.hmacSha256 key msg, true) :=
  hmac_eq key msg hk hm

/-- the body of `Sha256::hmac` as TRANSLATED from the current `Sha256.hpp` (`Nstd/Generated/Sha256Body.lean`: local object, the
`if`/`else` key normalisation with `Memory::copy`/`Memory::zero` as checked block writes `storeAt`/`zeroAt` at pointer offsets,
`finalize` into the first `digestSize` bytes of `hashKey` through the reference cast, the pad loop, the inner and outer pass
over `blockSize`/`digestSize`-byte prefixes of the local arrays) is HMAC of RFC 2104 over SHA-256: for every key (longer than,
equal to, shorter than the block size, empty), every message and EVERY initial content of the four local arrays
`hashKey oKeyPad iKeyPad hash` (uninitialised in C++) - every byte of them that is read has been written before; the ghost flag
(no array/block read out of range, no `usize` subtraction wrapped, no block write outside its array) stays true.  Hence the
translated body and the hand-written `hmac` of Model.lean agree. -/
theorem hmac_translated_eq_rfc2104 (hashKey0 oKeyPad0 iKeyPad0 hash0 key msg : List UInt8)
    (h1 : hashKey0.length = 64) (h2 : oKeyPad0.length = 64) (h3 : iKeyPad0.length = 64) (h4 : hash0.length = 32)
    (hk : key.length < 2 ^ 61) (hm : msg.length + 64 < 2 ^ 61) :
    Sha256Body.hmac hashKey0 oKeyPad0 iKeyPad0 hash0 key msg = (Spec.hmacSha256 key msg, true) ∧
    Sha256Body.hmac hashKey0 oKeyPad0 iKeyPad0 hash0 key msg = hmac key msg := by
  have h := gen_hmac_spec hashKey0 oKeyPad0 iKeyPad0 hash0 key msg h1 h2 h3 h4 hk hm
  exact ⟨h, by rw [h, hmac_eq key msg hk hm]⟩

/-- an empty input (in C++ possibly `(nullptr, 0)`): with `size == 0` the loop of the translated `update` - the only place that
dereferences `data` - is not entered and the object is left exactly as it was (`count`, buffer, state, ghost flag) -/
theorem update_empty_is_identity (p : Sha) : Sha256Body.update p [] = p ∧ update p [] = p := by
  refine ⟨?_, rfl⟩
  rw [gen_update_eq]; rfl

/-- chunk boundaries leave no trace in the OBJECT (stronger than equal digests, and for EVERY object state `p`, reachable or
not, with any `count`, buffer content and ghost flag): feeding `a` and then `b` leaves exactly the object that feeding `a ++ b`
leaves - same chaining value, same 64-bit counter, same buffer bytes (stale tail included), same ghost flag; hence any chunking of
a message leaves the object of the single call, for the model functions and for the bodies translated from the sources.  The
resumption point of the second call is re-derived from `count` alone (`(UInt32)count & 0x3F`), which is why no hypothesis on `p`
is needed. -/
theorem chunking_leaves_no_trace (p : Sha) (a b : List UInt8) (chunks : List (List UInt8)) :
    update (update p a) b = update p (a ++ b) ∧
    Sha256Body.update (Sha256Body.update p a) b = Sha256Body.update p (a ++ b) ∧
    chunks.foldl update p = update p chunks.flatten ∧
    chunks.foldl Sha256Body.update p = Sha256Body.update p chunks.flatten := by
  have hu : Sha256Body.update = update := funext fun p => funext fun d => gen_update_eq p d
  rw [hu]
  exact ⟨update_update p a b, update_update p a b, foldl_update_flatten chunks p, foldl_update_flatten chunks p⟩

/-- the buffer bytes at and beyond the buffer position carry no information: after ANY chunking of any message, overwrite the
unused part of `buffer` (everything from `count & 0x3F` on: stale bytes of earlier blocks, of an earlier digest's padding, or -
in C++ - the indeterminate bytes of a freshly constructed object) with ARBITRARY bytes; every continuation (any further chunks,
then `finalize`) yields the same digest as the untouched object, namely `Spec.sha256` of everything fed.  This is the model-level
content of "the constructor need not initialise `buffer`" (the model's `init` picks zeros; the theorem shows the choice is
unobservable) and of "`reset()` need not clear it". -/
theorem stale_buffer_bytes_are_irrelevant (chunks more : List (List UInt8)) (junk : List UInt8)
    (hj : junk.length = 64 - bufferPos (chunks.foldl update init)) :
    let p := chunks.foldl update init
    let q : Sha := { p with buffer := p.buffer.take (bufferPos p) ++ junk }
    (finalize (more.foldl update q)).1 = (finalize (more.foldl update p)).1 ∧
    (finalize (more.foldl update q)).1 = Spec.sha256 (chunks.flatten ++ more.flatten) := by
  intro p q
  have hI : Inv chunks.flatten p := by
    have := foldl_update_inv transformOK chunks [] init inv_init
    rwa [List.nil_append] at this
  have hq := (digest_chunks_from _ q (inv_replace_stale _ p hI junk hj) more).1
  have hp := (digest_chunks_from _ p hI more).1
  exact ⟨hq.trans hp.symm, hq⟩

/-- the two key equivalences RFC 2104 implies, for the CODE's `hmac` (and, through `hmac_translated_eq_rfc2104`, for the body
translated from `Sha256.hpp`): a key longer than the block is interchangeable with its own SHA-256 digest (computed by the
code's `hash`), and a key shorter than the block is interchangeable with itself followed by a zero byte - for every message.
Both say that the key normalisation (hash if longer, zero-fill to 64) is done exactly once and exactly as specified: hashing a
64-byte key, not zero-filling, or zero-filling before hashing would each break one of them. -/
theorem hmac_key_equivalences (key msg : List UInt8) (hk : key.length < 2 ^ 61) (hm : msg.length + 64 < 2 ^ 61) :
    (64 < key.length → hmac key msg = hmac (hash key) msg) ∧
    (key.length < 64 → hmac (key ++ [0]) msg = hmac key msg) := by
  constructor
  · intro h
    have hh : hash key = Spec.sha256 key := hash_eq_fips key hk
    have hl : (Spec.sha256 key).length < 2 ^ 61 := by rw [sha256_length]; decide
    rw [hh, hmac_eq_rfc2104 key msg hk hm, hmac_eq_rfc2104 _ msg hl hm]
    unfold Spec.hmacSha256
    rw [hmacKey_long key h]
  · intro h
    have hl : (key ++ [0]).length < 2 ^ 61 := by simp; omega
    rw [hmac_eq_rfc2104 key msg hk hm, hmac_eq_rfc2104 _ msg hl hm]
    unfold Spec.hmacSha256
    rw [hmacKey_zero key h]

/-! ### non-vacuity: the hypotheses are met by concrete non-trivial inputs -/

example : ([[0x61], [], [0x62, 0x63]] : List (List UInt8)).flatten.length < 2 ^ 61 := by decide
example : Reusable (reset (update init [1, 2, 3])) := (reusable_after_finalize_or_reset.2.2.2 init reusable_after_finalize_or_reset.1 [[1, 2, 3]])
example : (List.replicate 70 (0xaa : UInt8)).length < 2 ^ 61 ∧ ([0x61] : List UInt8).length + 64 < 2 ^ 61 := by decide
example : (List.replicate 64 (0xaa : UInt8)).length = 64 ∧ (List.replicate 32 (0xaa : UInt8)).length = 32 ∧
    (List.replicate 131 (0xaa : UInt8)).length < 2 ^ 61 := by decide
example : Sha256.H0.length = 8 ∧ (data32 (List.replicate 64 0)).length = 16 := by decide
example : ∃ st0 : Sha256U2.RS, st0.W.length = 16 ∧ st0.state.length = 8 ∧ st0.ok = true ∧ st0.a = 7 :=
  ⟨{ W := List.replicate 16 5, state := Sha256.H0, a := 7, b := 1, c := 2, d := 3, e := 4, f := 5, g := 6, h := 9, ok := true },
   by decide, by decide, rfl, rfl⟩

example : update (update init [1, 2]) (List.replicate 70 3) = update init ([1, 2] ++ List.replicate 70 3) :=
  (chunking_leaves_no_trace init [1, 2] (List.replicate 70 3) []).1

example : (64 - bufferPos ([[1, 2, 3]].foldl update init) = 61) ∧ (List.replicate 61 (0xEE : UInt8)).length = 61 := by decide

example : 64 < (List.replicate 65 (1 : UInt8)).length ∧ ([7] : List UInt8).length < 64 := by decide

end Nstd.Sha
