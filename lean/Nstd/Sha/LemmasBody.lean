import Nstd.Generated.Sha256Body
import Nstd.Sha.LemmasHmac
namespace Nstd.Sha
open Nstd.Generated Nstd.Generated.Sha256

theorem transform_call_eq (state data : List UInt32) : Sha256.Transform_call state data = transform state data := rfl

theorem wbb_for1_eq (p : Sha) (d : List UInt32) (hd : d.length = 16) :
    Sha256Body.WriteByteBlock_for1 0 ⟨p, d⟩ = ⟨{ p with ok := p.ok && data32ok p.buffer }, data32 p.buffer⟩ := by
  obtain ⟨d0, d1, d2, d3, d4, d5, d6, d7, d8, d9, d10, d11, d12, d13, d14, d15, rfl⟩ :
      ∃ d0 d1 d2 d3 d4 d5 d6 d7 d8 d9 d10 d11 d12 d13 d14 d15, d = [d0, d1, d2, d3, d4, d5, d6, d7, d8, d9, d10, d11, d12, d13, d14, d15] := by
    match d, hd with
    | [d0, d1, d2, d3, d4, d5, d6, d7, d8, d9, d10, d11, d12, d13, d14, d15], _ =>
      exact ⟨d0, d1, d2, d3, d4, d5, d6, d7, d8, d9, d10, d11, d12, d13, d14, d15, rfl⟩
  rw [Sha256Body.WriteByteBlock_for1, if_pos (by omega), Sha256Body.WriteByteBlock_for1, if_pos (by omega),
    Sha256Body.WriteByteBlock_for1, if_pos (by omega), Sha256Body.WriteByteBlock_for1, if_pos (by omega),
    Sha256Body.WriteByteBlock_for1, if_pos (by omega), Sha256Body.WriteByteBlock_for1, if_pos (by omega),
    Sha256Body.WriteByteBlock_for1, if_pos (by omega), Sha256Body.WriteByteBlock_for1, if_pos (by omega),
    Sha256Body.WriteByteBlock_for1, if_pos (by omega), Sha256Body.WriteByteBlock_for1, if_pos (by omega),
    Sha256Body.WriteByteBlock_for1, if_pos (by omega), Sha256Body.WriteByteBlock_for1, if_pos (by omega),
    Sha256Body.WriteByteBlock_for1, if_pos (by omega), Sha256Body.WriteByteBlock_for1, if_pos (by omega),
    Sha256Body.WriteByteBlock_for1, if_pos (by omega), Sha256Body.WriteByteBlock_for1, if_pos (by omega),
    Sha256Body.WriteByteBlock_for1, if_neg (by omega)]
  simp [Sha256Body.WriteByteBlock_for1_body, wr, data32, data32ok, List.range, List.range.loop, Bool.and_assoc]

theorem WriteByteBlock_eq (p : Sha) : Sha256Body.WriteByteBlock p = writeByteBlock p := by
  simp only [Sha256Body.WriteByteBlock, wbb_for1_eq p _ (List.length_replicate ..), transform_call_eq, writeByteBlock]

theorem u32_succ_toNat (c : UInt32) (h : c.toNat < 64) : (c + 1).toNat = c.toNat + 1 := by
  rw [UInt32.toNat_add]; simp; omega

theorem update_while_sim : ∀ (data : List UInt8) (st : Sha256Body.update_S), st.curBufferPos.toNat < 64 →
    (Sha256Body.update_while1 data st).p = updateLoop data st.curBufferPos.toNat st.p := by
  intro data
  induction data with
  | nil => intro st _; rfl
  | cons b rest ih =>
    intro st hlt
    obtain ⟨p, c⟩ := st
    simp only at hlt ⊢
    rw [Sha256Body.update_while1, updateLoop]
    have hc := u32_succ_toNat c hlt
    by_cases h : c.toNat + 1 = 64
    · have h32 : c + 1 = 64 := UInt32.toNat_inj.mp (by rw [hc, h]; rfl)
      have hb : Sha256Body.update_while1_body b ⟨p, c⟩ =
          ⟨writeByteBlock { p with buffer := wr p.buffer c.toNat b, count := p.count + 1 }, 0⟩ := by
        simp [Sha256Body.update_while1_body, h32, WriteByteBlock_eq]
      rw [hb, ih _ (by show (0 : UInt32).toNat < 64; decide)]
      simp only [h, if_true]
      rfl
    · have h32 : c + 1 ≠ 64 := fun e => h (by rw [← hc, e]; rfl)
      have hb : Sha256Body.update_while1_body b ⟨p, c⟩ =
          ⟨{ p with buffer := wr p.buffer c.toNat b, count := p.count + 1 }, c + 1⟩ := by
        simp [Sha256Body.update_while1_body, h32]
      rw [hb, ih _ (by simp only [hc]; omega)]
      simp only [h, if_false, hc]

/-- the generated `Sha256::update` is the model's `update`, for every object and every input -/
theorem gen_update_eq (p : Sha) (data : List UInt8) : Sha256Body.update p data = update p data := by
  have hlt : (p.count.toUInt32 &&& 63).toNat < 64 := by
    have := bufferPos_eq p
    unfold bufferPos at this
    rw [this]; omega
  simp only [Sha256Body.update, update, bufferPos]
  exact update_while_sim data ⟨p, p.count.toUInt32 &&& 63⟩ hlt

theorem and63_toNat (c : UInt32) : (c &&& 63).toNat = c.toNat % 64 := by
  rw [UInt32.toNat_and]
  have : (63 : UInt32).toNat = 2 ^ 6 - 1 := by decide
  rw [this, Nat.and_two_pow_sub_one_eq_mod]

/-- iterations the padding loop still needs from position `c` (`c ≤ 64`) -/
def padMeasure (c : Nat) : Nat := if c ≤ 56 then 56 - c else 121 - c

/-- the generated padding loop (`while (curBufferPos != 64 - 8)` with its iteration budget) is the model's `padLoop`:
the budget is never used up -/
theorem pad_while_sim : ∀ (fuel : Nat) (st : Sha256Body.finalize_S), padMeasure st.curBufferPos.toNat < fuel →
    st.curBufferPos.toNat ≤ 64 →
    Sha256Body.finalize_while1 fuel st =
      { st with p := (padLoop st.curBufferPos.toNat st.p).2, curBufferPos := 56 } ∧
    (padLoop st.curBufferPos.toNat st.p).1 = 56 := by
  intro fuel
  induction fuel with
  | zero => intro st h _; omega
  | succ fuel ih =>
    intro st hm h64
    obtain ⟨p, len, c, out⟩ := st
    simp only at hm h64 ⊢
    rw [Sha256Body.finalize_while1]
    by_cases h : c = 56
    · subst h
      have : (56 : UInt32).toNat = 56 := by decide
      simp only [this, padLoop_56]
      simp
    · have hn : c.toNat ≠ 56 := fun e => h (UInt32.toNat_inj.mp (by rw [e]; rfl))
      have hcond : c ≠ 64 - 8 := h
      simp only [hcond, ne_eq, not_false_eq_true, if_true]
      rw [padLoop]
      simp only [hn, if_false]
      have ha := and63_toNat c
      have hlt : (c &&& 63).toNat < 64 := by rw [ha]; omega
      have hs := u32_succ_toNat (c &&& 63) hlt
      have hz : (c &&& 63) = 0 ↔ c.toNat % 64 = 0 := by
        rw [← ha]
        exact ⟨fun e => by rw [e]; rfl, fun e => UInt32.toNat_inj.mp (by rw [e]; rfl)⟩
      obtain ⟨q, hq⟩ : ∃ q : Sha, q = { (if c.toNat % 64 = 0 then writeByteBlock p else p) with
              buffer := wr (if c.toNat % 64 = 0 then writeByteBlock p else p).buffer (c.toNat % 64) 0 } := ⟨_, rfl⟩
      have hb : Sha256Body.finalize_while1_body ⟨p, len, c, out⟩ = ⟨q, len, (c &&& 63) + 1, out⟩ := by
        subst hq
        by_cases hz0 : c.toNat % 64 = 0
        · have := hz.mpr hz0
          simp [Sha256Body.finalize_while1_body, this, hz0, WriteByteBlock_eq]
        · have : ¬ (c &&& 63) = 0 := fun e => hz0 (hz.mp e)
          simp [Sha256Body.finalize_while1_body, this, hz0, ha]
      rw [hb]
      have hm' : padMeasure ((c &&& 63) + 1).toNat < fuel := by
        rw [hs, ha]; unfold padMeasure at hm ⊢; split at hm <;> split <;> omega
      have := ih ⟨q, len, (c &&& 63) + 1, out⟩ hm' (by simp only [hs, ha]; omega)
      simp only [hs, ha] at this
      rw [← hq]
      exact this

theorem len_for2_eq (p : Sha) (len : UInt64) (out : List UInt8) :
    Sha256Body.finalize_for2 0 ⟨p, len, 56, out⟩ =
      ⟨{ p with buffer := lenLoop 8 56 len p.buffer }, len <<< 8 <<< 8 <<< 8 <<< 8 <<< 8 <<< 8 <<< 8 <<< 8, 64, out⟩ := by
  rw [Sha256Body.finalize_for2, if_pos (by omega), Sha256Body.finalize_for2, if_pos (by omega),
    Sha256Body.finalize_for2, if_pos (by omega), Sha256Body.finalize_for2, if_pos (by omega),
    Sha256Body.finalize_for2, if_pos (by omega), Sha256Body.finalize_for2, if_pos (by omega),
    Sha256Body.finalize_for2, if_pos (by omega), Sha256Body.finalize_for2, if_pos (by omega),
    Sha256Body.finalize_for2, if_neg (by omega)]
  simp [Sha256Body.finalize_for2_body, lenLoop]

theorem and_dup (b c : Bool) : (b && (b && c)) = (b && c) := by cases b <;> cases c <;> rfl

theorem digest_for3_eq (p : Sha) (len : UInt64) (c : UInt32) :
    Sha256Body.finalize_for3 0 ⟨p, len, c, []⟩ =
      ⟨{ p with ok := p.ok && (List.range 8).all fun i => inb p.state i }, len, c, digestOf p.state⟩ := by
  rw [Sha256Body.finalize_for3, if_pos (by omega), Sha256Body.finalize_for3, if_pos (by omega),
    Sha256Body.finalize_for3, if_pos (by omega), Sha256Body.finalize_for3, if_pos (by omega),
    Sha256Body.finalize_for3, if_pos (by omega), Sha256Body.finalize_for3, if_pos (by omega),
    Sha256Body.finalize_for3, if_pos (by omega), Sha256Body.finalize_for3, if_pos (by omega),
    Sha256Body.finalize_for3, if_neg (by omega)]
  simp only [Sha256Body.finalize_for3_body, digestOf, List.range, List.range.loop, List.flatMap_cons, List.flatMap_nil,
    List.all_cons, List.all_nil, List.nil_append, List.cons_append, List.append_nil]
  simp only [show (UInt32.ofNat 0).toNat = 0 from rfl, show (UInt32.ofNat 1).toNat = 1 from rfl,
    show (UInt32.ofNat 2).toNat = 2 from rfl, show (UInt32.ofNat 3).toNat = 3 from rfl, show (UInt32.ofNat 4).toNat = 4 from rfl,
    show (UInt32.ofNat 5).toNat = 5 from rfl, show (UInt32.ofNat 6).toNat = 6 from rfl, show (UInt32.ofNat 7).toNat = 7 from rfl]
  generalize inb p.state 0 = b0
  generalize inb p.state 1 = b1
  generalize inb p.state 2 = b2
  generalize inb p.state 3 = b3
  generalize inb p.state 4 = b4
  generalize inb p.state 5 = b5
  generalize inb p.state 6 = b6
  generalize inb p.state 7 = b7
  simp only [Bool.and_assoc, and_dup, Bool.and_self, Bool.and_true]

/-- the generated `Sha256::finalize` is the model's `finalize`, for every object -/
theorem gen_finalize_eq (p : Sha) : Sha256Body.finalize p = finalize p := by
  have ha := and63_toNat p.count.toUInt32
  have hlt : (p.count.toUInt32 &&& 63).toNat < 64 := by rw [ha]; omega
  have hs := u32_succ_toNat _ hlt
  have hw := pad_while_sim 4294967296
    ⟨{ p with buffer := wr p.buffer (p.count.toUInt32 &&& 63).toNat 128 }, p.count <<< 3, (p.count.toUInt32 &&& 63) + 1, []⟩
    (by simp only [hs]; unfold padMeasure; split <;> omega) (by simp only [hs]; omega)
  simp only [hs] at hw
  unfold Sha256Body.finalize finalize bufferPos
  simp only [hw.1, hw.2, len_for2_eq, WriteByteBlock_eq, digest_for3_eq]

end Nstd.Sha
