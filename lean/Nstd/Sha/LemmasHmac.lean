import Nstd.Sha.LemmasFinal
import Nstd.Sha.LemmasTransform
/-
  Reusability of the hasher object, every chunking on every reusable hasher, and HMAC
  (`Sha256::hmac` = RFC 2104 for the three key-length cases).
-/
namespace Nstd.Sha
open Nstd.Generated

theorem transformOK : TransformOK := transform_eq_compress

/-- a hasher that behaves like a freshly constructed one: initial hash value, count 0, a 64-byte
buffer of arbitrary content, and no out-of-range array read recorded so far -/
def Reusable (p : Sha) : Prop := p.state = Spec.H0 ∧ p.count = 0 ∧ p.buffer.length = 64 ∧ p.ok = true

theorem inv_nil_iff (p : Sha) : Inv [] p ↔ Reusable p := by
  constructor
  · rintro ⟨full, tail, rest, hm, _, hbuf, hsz, _, hst, hcnt, hok⟩
    have hf : full = [] := by
      cases full with
      | nil => rfl
      | cons _ _ => simp at hm
    subst hf
    have ht : tail = [] := by simpa using hm.symm
    subst ht
    refine ⟨by simpa [hashBlocks_lt] using hst, UInt64.toNat_inj.mp (by simpa using hcnt), by simpa [hbuf] using hsz, hok⟩
  · rintro ⟨hs, hc, hb, hok⟩
    exact ⟨[], [], p.buffer, rfl, rfl, rfl, by simpa using hb, by omega, by simp [hs, hashBlocks_lt], by simp [hc], hok⟩

/-- the shape every operation preserves, whatever was fed (no bound on the length): 64-byte buffer,
8 state words, no out-of-range read -/
def WellFormed (p : Sha) : Prop := p.buffer.length = 64 ∧ p.state.length = 8 ∧ p.ok = true

theorem updateLoop_wellFormed : ∀ (data : List UInt8) (cur : Nat) (p : Sha), cur < 64 → WellFormed p →
    WellFormed (updateLoop data cur p) := by
  intro data
  induction data with
  | nil => intro cur p _ h; exact h
  | cons b data ih =>
    intro cur p hc h
    obtain ⟨hb, hs, hok⟩ := h
    have hb' : (Sha256.wr p.buffer cur b).length = 64 := by rw [wr_length _ _ _ (by omega), hb]
    simp only [updateLoop]
    split
    · refine ih 0 _ (by omega) ?_
      rw [writeByteBlock_eq transformOK { p with buffer := Sha256.wr p.buffer cur b, count := p.count + 1 } hs hb']
      exact ⟨hb', compress_length _ _, hok⟩
    · exact ih (cur + 1) _ (by omega) ⟨hb', hs, hok⟩

theorem foldl_update_wellFormed (chunks : List (List UInt8)) : ∀ p : Sha, WellFormed p →
    WellFormed (chunks.foldl update p) := by
  induction chunks with
  | nil => intro p h; exact h
  | cons c cs ih =>
    intro p h
    simp only [List.foldl_cons]
    exact ih _ (updateLoop_wellFormed _ _ _ (by rw [bufferPos_eq]; omega) h)

theorem reusable_wellFormed (p : Sha) (h : Reusable p) : WellFormed p :=
  ⟨h.2.2.1, by rw [h.1]; exact specH0_length, h.2.2.2⟩

theorem padLoop_wellFormed (cur : Nat) (p : Sha) (h : WellFormed p) :
    (padLoop cur p).1 = 56 ∧ WellFormed (padLoop cur p).2 := by
  induction cur, p using padLoop.induct with
  | case1 p => rw [padLoop]; simp [h]
  | case2 cur p hne c q ih =>
    rw [padLoop]
    simp only [hne, if_false]
    apply ih
    have hc : c < 64 := Nat.mod_lt _ (by omega)
    have hq : WellFormed q := by
      show WellFormed (if c = 0 then writeByteBlock p else p)
      split
      · rw [writeByteBlock_eq transformOK p h.2.1 h.1]; exact ⟨h.1, compress_length _ _, h.2.2⟩
      · exact h
    exact ⟨by rw [wr_length _ _ _ (by rw [hq.1]; exact hc)]; exact hq.1, hq.2.1, hq.2.2⟩

theorem lenLoop_length : ∀ (n cur : Nat) (l : UInt64) (buf : List UInt8), cur + n ≤ buf.length →
    (lenLoop n cur l buf).length = buf.length := by
  intro n
  induction n with
  | zero => intro cur l buf _; rfl
  | succ n ih =>
    intro cur l buf h
    simp only [lenLoop]
    rw [ih _ _ _ (by rw [wr_length _ _ _ (by omega)]; omega), wr_length _ _ _ (by omega)]

theorem finalize_snd (p : Sha) (r : Nat × Sha)
    (hr : padLoop (bufferPos p + 1) { p with buffer := Sha256.wr p.buffer (bufferPos p) 0x80 } = r) :
    (finalize p).2 =
      reset { writeByteBlock { r.2 with buffer := lenLoop 8 r.1 (p.count <<< 3) r.2.buffer } with
        ok := (writeByteBlock { r.2 with buffer := lenLoop 8 r.1 (p.count <<< 3) r.2.buffer }).ok &&
          (List.range 8).all fun i => Sha256.inb (writeByteBlock { r.2 with buffer := lenLoop 8 r.1 (p.count <<< 3) r.2.buffer }).state i } := by
  subst hr; rfl

/-- `finalize` leaves a reusable hasher whatever was fed before (no length bound) -/
theorem finalize_reusable (p : Sha) (h : WellFormed p) : Reusable (finalize p).2 := by
  have hc : bufferPos p < 64 := by rw [bufferPos_eq]; omega
  have h1 : WellFormed { p with buffer := Sha256.wr p.buffer (bufferPos p) 0x80 } :=
    ⟨by rw [wr_length _ _ _ (by rw [h.1]; exact hc)]; exact h.1, h.2.1, h.2.2⟩
  obtain ⟨hr1, hr2⟩ := padLoop_wellFormed (bufferPos p + 1) _ h1
  obtain ⟨r, hr⟩ : ∃ r, padLoop (bufferPos p + 1) { p with buffer := Sha256.wr p.buffer (bufferPos p) 0x80 } = r := ⟨_, rfl⟩
  rw [hr] at hr1 hr2
  rw [finalize_snd p r hr]
  obtain ⟨n, q⟩ := r
  simp only at hr1 hr2
  subst hr1
  have hl : (lenLoop 8 56 (p.count <<< 3) q.buffer).length = 64 := by
    rw [lenLoop_length _ _ _ _ (by rw [hr2.1]; decide), hr2.1]
  simp only []
  obtain ⟨X, hX⟩ : ∃ X : Sha, X = { q with buffer := lenLoop 8 56 (p.count <<< 3) q.buffer } := ⟨_, rfl⟩
  rw [← hX]
  have e1 : X.state = q.state := by rw [hX]
  have e2 : X.buffer = lenLoop 8 56 (p.count <<< 3) q.buffer := by rw [hX]
  have e3 : X.ok = q.ok := by rw [hX]
  have hXs : X.state.length = 8 := by rw [e1]; exact hr2.2.1
  have hXb : X.buffer.length = 64 := by rw [e2]; exact hl
  have hXo : X.ok = true := by rw [e3]; exact hr2.2.2
  rw [writeByteBlock_eq transformOK X hXs hXb]
  refine ⟨genH0_eq, genCount0_eq, hXb, ?_⟩
  simp only [reset, Bool.and_eq_true]
  exact ⟨hXo, stateReads_ok _ _⟩

theorem all_inb {α : Type} (l : List α) (n : Nat) (h : l.length = n) :
    ((List.range n).all fun i => Sha256.inb l i) = true := by
  simp only [List.all_eq_true, List.mem_range, Sha256.inb, decide_eq_true_eq]
  intro i hi; omega

/-- every chunking, on every reusable hasher -/
theorem digest_chunks (p : Sha) (hp : Reusable p) (chunks : List (List UInt8)) (hlen : chunks.flatten.length < 2 ^ 61) :
    (finalize (chunks.foldl update p)).1 = Spec.sha256 chunks.flatten ∧ Reusable (finalize (chunks.foldl update p)).2 := by
  have hI := foldl_update_inv transformOK chunks [] p ((inv_nil_iff p).mpr hp)
  rw [List.nil_append] at hI
  have := finalize_spec transformOK _ _ hI hlen
  exact ⟨this.1, (inv_nil_iff _).mp this.2⟩

/-- the same from any mid-stream state (`Inv m p`: `p` has absorbed `m`), for ANY length (beyond 2^64 bytes the 64-bit byte
counter wraps; position and length field only depend on it modulo 2^64) -/
theorem digest_chunks_from (m : List UInt8) (p : Sha) (hI : Inv m p) (chunks : List (List UInt8)) :
    (finalize (chunks.foldl update p)).1 = Spec.sha256 (m ++ chunks.flatten) ∧ Reusable (finalize (chunks.foldl update p)).2 := by
  have hI' := foldl_update_inv transformOK chunks m p hI
  have := finalize_spec_all transformOK _ _ hI'
  exact ⟨this.1, (inv_nil_iff _).mp this.2⟩

theorem sha256_length (m : List UInt8) : (Spec.sha256 m).length = 32 := by
  unfold Spec.sha256
  obtain ⟨a, b, c, d, e, f, g, h, hh⟩ := list8 _ (hashBlocks_length _ (Spec.pad m) rfl Spec.H0 specH0_length)
  rw [hh]; rfl

theorem map_range_getD {α β : Type} (l : List α) (d : α) (f : α → β) (n : Nat) (h : l.length = n) :
    (List.range n).map (fun i => f (l.getD i d)) = l.map f := by
  subst h
  apply List.ext_getElem
  · simp
  · intro i h1 h2
    simp at h1
    simp [List.getD_eq_getElem?_getD, h1]

theorem hmac_eq (key msg : List UInt8) (hk : key.length < 2 ^ 61) (hm : msg.length + 64 < 2 ^ 61) :
    hmac key msg = (Spec.hmacSha256 key msg, true) := by
  -- key normalisation
  have hkey : ∃ sha, Reusable sha ∧
      (if key.length > 64 then ((finalize (update init key)).2, (finalize (update init key)).1 ++ List.replicate 32 0)
        else (init, key ++ (if key.length < 64 then List.replicate (64 - key.length) 0 else []))) = (sha, Spec.hmacKey key) := by
    have hi : Reusable init := (inv_nil_iff _).mp inv_init
    by_cases hl : key.length > 64
    · have := digest_chunks init hi [key] (by simpa using hk)
      simp only [List.foldl_cons, List.foldl_nil, List.flatten_cons, List.flatten_nil, List.append_nil] at this
      refine ⟨_, this.2, ?_⟩
      simp only [hl, if_true, this.1, Spec.hmacKey, Spec.B, sha256_length]
    · refine ⟨init, hi, ?_⟩
      simp only [hl, if_false, Spec.hmacKey, Spec.B]
      by_cases h64 : key.length < 64
      · simp [h64]
      · have : key.length = 64 := by omega
        simp [this]
  obtain ⟨sha, hsha, hk2⟩ := hkey
  have hkl : (Spec.hmacKey key).length = 64 := by
    unfold Spec.hmacKey Spec.B
    by_cases hl : key.length > 64
    · simp [hl, sha256_length]
    · simp [hl]; omega
  unfold hmac Spec.hmacSha256
  simp only [show Sha256.blockSize = 64 from rfl, show Sha256.hmacOpad = 0x5c from rfl,
    show Sha256.hmacIpad = 0x36 from rfl, hk2]
  rw [map_range_getD _ 0 (· ^^^ 0x5c) 64 hkl, map_range_getD _ 0 (· ^^^ 0x36) 64 hkl]
  have h1 := digest_chunks sha hsha [(Spec.hmacKey key).map (· ^^^ 0x36), msg] (by simp [hkl]; omega)
  simp only [List.foldl_cons, List.foldl_nil, List.flatten_cons, List.flatten_nil, List.append_nil] at h1
  have h2 := digest_chunks _ h1.2 [(Spec.hmacKey key).map (· ^^^ 0x5c), Spec.sha256 ((Spec.hmacKey key).map (· ^^^ 0x36) ++ msg)]
    (by simp [hkl, sha256_length])
  simp only [List.foldl_cons, List.foldl_nil, List.flatten_cons, List.flatten_nil, List.append_nil] at h2
  rw [h1.1, h2.1, h2.2.2.2.2, all_inb _ 64 hkl]
  rfl

/-- the bytes of the buffer at and beyond the buffer position are not part of the abstract state -/
theorem inv_replace_stale (m : List UInt8) (p : Sha) (h : Inv m p) (junk : List UInt8)
    (hj : junk.length = 64 - bufferPos p) :
    Inv m { p with buffer := p.buffer.take (bufferPos p) ++ junk } := by
  obtain ⟨full, tail, rest, hm, hfull, hbuf, hlen, hpos, hst, hcnt, hok⟩ := h
  have hbp : bufferPos p = tail.length := by
    rw [bufferPos_eq, hcnt, hm, List.length_append]; omega
  refine ⟨full, tail, junk, hm, hfull, ?_, ?_, ?_, hst, hcnt, hok⟩
  · simp only []; rw [hbuf, hbp, List.take_left']; rfl
  · omega
  · omega


/-! ### key normalisation of RFC 2104: the two well-known key equivalences -/

theorem hmacKey_long (key : List UInt8) (h : 64 < key.length) : Spec.hmacKey key = Spec.hmacKey (Spec.sha256 key) := by
  unfold Spec.hmacKey Spec.B
  have hl := sha256_length key
  simp only [gt_iff_lt, h, if_true, hl, show ¬ (64 < 32) from by decide, if_false]

theorem hmacKey_zero (key : List UInt8) (h : key.length < 64) : Spec.hmacKey (key ++ [0]) = Spec.hmacKey key := by
  unfold Spec.hmacKey Spec.B
  have h1 : ¬ (64 < key.length + 1) := by omega
  have h2 : ¬ (64 < key.length) := by omega
  simp only [gt_iff_lt, List.length_append, List.length_cons, List.length_nil, Nat.zero_add, h1, h2, if_false]
  rw [List.append_assoc, show 64 - key.length = (64 - (key.length + 1)) + 1 from by omega, List.replicate_succ]
  rfl

end Nstd.Sha
