import Nstd.Rc.Model
/-
  Tie by translation (round 7): a small intermediate language for the bodies of the member functions that acquire,
  release and exchange counted payloads, and its interpretation as step lists of the model (`List Act`).

  tools/gen_rc.py parses the CURRENT bodies in String.hpp / Variant.hpp / Document/Xml.hpp / RefCount.hpp (tokenizer +
  recursive-descent parser of the C++ subset they use; everything else is refused) and writes them as `Stmt` values into
  Nstd/Generated/RcBodies.lean.  Nstd/Rc/PropsTie.lean proves, for every state, that the interpretation `sem` of the
  generated bodies is the hand-written step list `pre` of the corresponding call of Model.lean (up to the marker `clr`,
  a step that changes nothing: `noClr`).  So an edit of such a body (an increment after the release, a missing
  increment, a release of the wrong handle, a swap of one field only) changes the generated value and the equalities of
  PropsTie.lean no longer check.

  What the interpretation fixes (hand-written, generic, the same for all bodies):
    * a pointer variable denotes the handle slot of `*this` (`d`) or of the argument (`s`), an uncounted copy of one of
      them (a local `Data* x = other.data;`, or `data = other.data` before the increment), the counted reference in
      the scratch slot of the running thread once `Atomic::increment(x->ref)` was executed through a local, the static
      empty descriptor, or the inline descriptor `&_data`;
    * `if(p->ref && Atomic::decrement(p->ref) == 0) delete …` through the object's own pointer is `dec; free`
      (for RefCount::Ptr: the release list given as parameter, which includes the destructor of the pointee);
    * `Atomic::increment` through `data` right after `data = other.data` is the model's `inc d s`; through a local it is
      `inc T s` and the later `data = local` is `move d T`;
    * a block allocation that copies the bytes of `src` is `alloc` with the measured capacity of that site;
    * at the end of a body every pointer must be settled; `refObj`/`obj` left exchanged with the argument is `swap`.
  Anything else makes `sem` produce the always-rejected step `move d d` (`bad`).
  Core Lean only.
-/
namespace Nstd.Rc.Ir

/-- pointer expressions (the counted field `data` / `refObj`) -/
inductive PE
  | self                -- data, this->data, refObj, this->refObj
  | other               -- other.data, other.refObj, the raw pointer argument
  | loc (i : Nat)       -- i-th local pointer variable of the body, in order of declaration (names do not matter)
  | static_             -- &emptyData, &nullData, 0
  | inline_             -- &_data
deriving DecidableEq, Repr

/-- conditions -/
inductive CE
  | counted (p : PE)    -- `p->ref` (String, Variant) / `p` (RefCount::Ptr: non-null)
  | isStatic (p : PE)   -- `p == &emptyData`
  | notSelf             -- `&other != this`
  | samePtr (p q : PE)  -- `p == q`: both designate the same block
  -- the plain read of the counter that guards the in-place path (the model's `readRef`):
  | sole                -- `data->ref == 1 [&& minCapacity <= data->capacity]`                 (String)
  | notSole             -- `data->type != T || data->ref > 1`                                   (Variant, Xml::Variant)
  | wrongType           -- `data->type != T`                                                    (Xml::Variant::toElement)
  | shared              -- `data->ref > 1`
deriving DecidableEq, Repr

inductive Stmt
  | skip
  | seq (a b : Stmt)
  | ite (c : CE) (t e : Stmt)
  | bind (i : Nat) (p : PE)       -- `T* x = p;`  (x = local number i)
  | inc (p : PE)                  -- `Atomic::increment(p->ref);`
  | release (p : PE)              -- `if(p->ref && Atomic::decrement(p->ref) == 0) { [destructor of the content;] delete … p; }`
  | store (dst src : PE)          -- `dst = src;`
  | allocCopy (dst src : PE)      -- `dst = new block; copy of the bytes of src; ref = 1`
  | copyInline (src : PE)         -- `_data = *src;` / the fields of `_data` are filled from the arguments
  | writeInPlace                  -- the guarded modification of the own payload: `data->len = …`, `*(T*)(data + 1) = other`,
                                  -- `return *(T*)(data + 1)` (a mutable reference through which the caller writes)
  -- the second field of RefCount::Ptr (`obj`, not counted): only checked to mirror the counted field
  | bindO (i : Nat) (p : PE)
  | storeO (dst src : PE)
deriving Repr

/-- what a pointer variable denotes while a body is interpreted -/
inductive Den
  | slot (v : Nat)      -- the pointer stored in handle slot v (the object's own field)
  | alias (v : Nat)     -- an uncounted copy of the pointer in slot v
  | held (t : Nat)      -- the counted reference in scratch slot t
  | fresh (t : Nat)     -- a block allocated into scratch slot t
  | static_
  | inline_
  | bad
deriving DecidableEq, Repr

structure Env where
  self : Den
  other : Den
  locs : List Den := List.replicate 8 .bad
  inl : Option (Nat × List Nat) := none     -- content of `_data` (tag, value) once it was filled
  acts : List Act := []
  ok : Bool := true
  stopped : Bool := false                   -- `semPre`: the body has reached its plain read
  lastInc : Option (List Act × Nat) := none -- the last step was an increment through a local: (steps before it, source slot)

/-- parameters of one interpretation: the state in which the call starts, the thread, the slots of `*this` and of the
    argument, the release list of a slot (`dec; free`, or the Ptr release with the destructor of the pointee), the
    allocation (tag, content, capacity) of a copy, and the inline value taken from the arguments -/
structure Ctx where
  st : St
  tid : Nat
  d : Nat
  s : Nat
  relOf : Nat → List Act
  allocOf : Nat → List Act     -- target slot ↦ the `alloc` step of this site (for containers followed by the copy
                               -- constructors of the elements)
  argInl : Option (Nat × List Nat)    -- inline value built from the arguments (attach / literal), `none`: copy of `*src`
  -- bodies with the plain counter read: `mode` 0 = the body has none, 1 = up to and including the read (`pre` of the model),
  -- 2 = from the read on, decided by `writing` (`post` of the model: the state after the read)
  mode : Nat := 0
  readOk : Bool := true        -- the other conjuncts of the read (capacity, payload type)
  writing : Bool := false      -- the read succeeded (`isWriting` in the state after `pre`)
  typeOk : Bool := true        -- the payload has the type of the accessor
  wacts : List Act := []       -- the guarded in-place modification

def evalP (e : Env) : PE → Den
  | .self => e.self
  | .other => e.other
  | .loc i => e.locs.getD i .bad
  | .static_ => .static_
  | .inline_ => .inline_

def isBlkDen (c : Ctx) : Den → Bool
  | .slot v => (c.st.slots v).isBlk
  | .alias v => (c.st.slots v).isBlk
  | .held _ => true
  | .fresh _ => true
  | _ => false

def isStaticDen (c : Ctx) : Den → Bool
  | .slot v => isNoneH c.st v
  | .alias v => isNoneH c.st v
  | .static_ => true
  | _ => false

def evalC (c : Ctx) (e : Env) : CE → Bool
  | .counted p => isBlkDen c (evalP e p)
  | .isStatic p => isStaticDen c (evalP e p)
  | .notSelf => c.d != c.s
  | .samePtr p q =>
    (match evalP e p, evalP e q with
      | .slot v, .slot w | .slot v, .alias w | .alias v, .slot w | .alias v, .alias w => c.st.slots v == c.st.slots w
      | _, _ => false)
  | .sole => c.writing
  | .notSole => !c.writing
  | .wrongType => !c.writing && !c.typeOk
  | .shared => !c.writing

def isGuard : CE → Bool
  | .sole | .notSole | .wrongType | .shared => true
  | _ => false

def setP (e : Env) (p : PE) (x : Den) : Env :=
  match p with
  | .self => { e with self := x }
  | .other => { e with other := x }
  | .loc i => { e with locs := e.locs.set i x }
  | _ => { e with ok := false }

def emit (e : Env) (a : List Act) : Env := { e with acts := e.acts ++ a, lastInc := none }
def fail (e : Env) : Env := { e with ok := false }

/-- the inline value seen through a pointer (`*other.data` when it is not counted) -/
def inlOf (c : Ctx) : Den → Option (Nat × List Nat)
  | .slot v | .alias v => match c.st.slots v with | .inl tag val => some (tag, val) | _ => none
  | _ => none

def exec (c : Ctx) : Stmt → Env → Env
  | .skip, e => e
  | .seq a b, e => let e1 := exec c a e; if e1.stopped then e1 else exec c b e1
  | .ite cnd t f, e =>
    if isGuard cnd then
      if c.mode = 1 then { emit e [.readRef c.d c.readOk] with stopped := true }
      else if c.mode = 2 then (if evalC c e cnd then exec c t e else exec c f e)
      else fail e
    else if evalC c e cnd then exec c t e else exec c f e
  | .writeInPlace, e =>
    match e.self with
    | .slot v => if c.mode = 2 ∧ c.writing = true ∧ v = c.d then emit e c.wacts else fail e
    | _ => fail e
  | .bind i p, e =>
    match evalP e p with
    | .slot v => { e with locs := e.locs.set i (.alias v) }
    | x => { e with locs := e.locs.set i x }
  | .inc p, e =>
    match p, evalP e p with
    | .self, .alias v => emit (setP e .self (.slot c.d)) [.inc c.d v]          -- data = other.data; increment(data->ref)
    | .loc i, .alias v => { emit (setP e (.loc i) (.held (tmpT c.tid))) [.inc (tmpT c.tid) v] with lastInc := some (e.acts, v) }
    | _, _ => fail e
  | .release p, e =>
    match p, evalP e p with
    | .self, .slot v => emit e (c.relOf v)
    | .loc _, .alias v =>
      -- through a local copy of the object's own pointer (`Data* old = data; …; release(old)`), before `data` is overwritten
      if v = c.d ∧ e.self = .slot c.d then emit e (c.relOf v) else fail e
    | _, _ => fail e
  | .store dst src, e =>
    match dst, evalP e src with
    | .self, .held t =>
      -- `increment(x->ref); data = x;` with nothing in between is the model's `inc d s` (the reference never sits in a scratch slot)
      (match e.lastInc with
        | some (before, v) => { setP e .self (.slot c.d) with acts := before ++ [.inc c.d v], lastInc := none }
        | none => emit (setP e .self (.slot c.d)) [.move c.d t])
    | .self, .fresh t => emit (setP e .self (.slot c.d)) [.move c.d t]
    | .self, .static_ => setP e .self (.slot c.d)                               -- the pointer is forgotten (`clr`: no step)
    | .self, .inline_ => setP e .self .inline_
    | .self, .alias v => setP e .self (.alias v)
    | .self, .slot v => setP e .self (.alias v)
    | .other, .slot v => setP e .other (.alias v)
    | .other, .alias v => setP e .other (.alias v)
    | _, _ => fail e
  | .allocCopy dst _, e =>
    match dst with
    | .self => emit (setP e .self (.slot c.d)) (c.allocOf c.d)
    | .loc i => emit (setP e (.loc i) (.fresh (tmpT c.tid))) (c.allocOf (tmpT c.tid))
    | _ => fail e
  | .copyInline src, e =>
    match e.self with
    | .inline_ =>
      (match (match c.argInl with | some x => some x | none => inlOf c (evalP e src)) with
        | some (tag, val) => emit (setP e .self (.slot c.d)) [.setInl c.d tag val]
        | none => setP e .self (.slot c.d))                                      -- a copy of the null descriptor
    | _ => fail e
  | .bindO _ _, e => e                                      -- locals are numbered over both fields
  | .storeO _ _, e => e

/-- the always-rejected step (`move d d`): an interpretation that left the understood patterns -/
def badAct (c : Ctx) : Act := .move c.d c.d

/-- the step list of a body: every pointer settled at the end, or the two handles exchanged (`swap`) -/
def sem (c : Ctx) (body : Stmt) : List Act :=
  let e := exec c body { self := .slot c.d, other := .slot c.s }
  if e.ok = false then [badAct c]
  else match e.self, e.other with
    | .slot v, .slot w => if v = c.d ∧ w = c.s then e.acts else [badAct c]
    | .alias v, .slot w =>
      -- a copy of a null pointer needs no reference (RefCount::Ptr: `refObj = other.refObj` without an increment)
      if isNoneH c.st v = true ∧ w = c.s then e.acts else [badAct c]
    | .alias v, .alias w => if v = c.s ∧ w = c.d ∧ e.acts = [] then [.swap c.d c.s] else [badAct c]
    | _, _ => [badAct c]

/-- `clr` marks the place where the object forgets a released pointer; it changes nothing -/
def noClr (acts : List Act) : List Act := acts.filter (fun a => match a with | .clr _ => false | _ => true)

/-! ### bodies that only call translated members (`Variant::swap`) -/

inductive Obj | this | arg | tmp
deriving DecidableEq, Repr

inductive Call
  | copyCtor (dst src : Obj)     -- `Variant dst = src;`
  | assign (dst src : Obj)       -- `dst = src;`
  | dtor (x : Obj)               -- end of the scope of the temporary
deriving Repr

/-! ### the uncounted field `obj` of RefCount::Ptr mirrors the counted field `refObj` -/

/-- the stores of one field, locals resolved to what they were bound to, in program order (both branches of an `if`) -/
def storesOf (objField : Bool) : Stmt → List PE × List (PE × PE) → List PE × List (PE × PE)
  | .skip, x => x
  | .seq a b, x => storesOf objField b (storesOf objField a x)
  | .ite _ t f, x => storesOf objField f (storesOf objField t x)
  | .bind i p, (l, r) => (l.set i p, r)           -- locals are numbered over both fields
  | .bindO i p, (l, r) => (l.set i p, r)
  | .store dst src, (l, r) =>
    if objField then (l, r) else (l, r ++ [(dst, match src with | .loc i => l.getD i .static_ | p => p)])
  | .storeO dst src, (l, r) =>
    if objField then (l, r ++ [(dst, match src with | .loc i => l.getD i .static_ | p => p)]) else (l, r)
  | _, x => x

def fieldsMirror (body : Stmt) : Bool :=
  (storesOf false body (List.replicate 8 .static_, [])).2 == (storesOf true body (List.replicate 8 .static_, [])).2

end Nstd.Rc.Ir
