import Nstd.Rc.Ir
import Nstd.Rc.Nested
import Nstd.Generated.RcBodies
/-
  Property C09, tie by translation: the step lists of the model's calls ARE the interpretation (`Ir.sem`) of the bodies that
  tools/gen_rc.py translated from the current String.hpp / Variant.hpp / Document/Xml.hpp / RefCount.hpp, for every state
  (up to `clr`, the marker step that changes nothing).  See Nstd/Rc/Ir.lean for the interpretation.
-/
namespace Nstd.Rc
open Nstd.Rc.Ir
open Nstd.Generated.RcBodies

/-- String: release = `dec; free`, a copy allocates the bytes seen through the argument with the capacity of that site -/
def strCtx (st : St) (tid d s site : Nat) (arg : Option (Nat × List Nat)) : Ctx :=
  { st := st, tid := tid, d := d, s := s, relOf := fun v => [.dec v, .free],
    allocOf := fun t => .alloc t tagStr (viewVal st s) (st.capTab site (viewVal st s).length), argInl := arg }

/-- Variant / Xml::Variant: release = `dec; free` (the destructor of the content runs at `free`: the cascade of `runC`) -/
def boxCtx (st : St) (tid d s : Nat) : Ctx :=
  { st := st, tid := tid, d := d, s := s, relOf := fun v => [.dec v, .free],
    allocOf := fun _ => .move d d, argInl := none }

/-- RefCount::Ptr: release = the model's release list of the slot in state `stR`, which includes the destructor of the
    pointee (the harness' Node releases its `next` handle) -/
def ptrCtx (st stR : St) (tid d s : Nat) : Ctx :=
  { st := st, tid := tid, d := d, s := s, relOf := fun v => noClr (relP stR tid v relFuel),
    allocOf := fun _ => .move d d, argInl := none }

theorem noClr_append (a b : List Act) : noClr (a ++ b) = noClr a ++ noClr b := by simp [noClr]

theorem viewVal_inl {st : St} {s tag : Nat} {val : List Nat} (h : st.slots s = .inl tag val) : viewVal st s = val := by
  simp [viewVal, view, h]

/-! ### String -/

/-- `S[d].~String(); new(&S[d]) String(S[s])` -/
theorem tie_String_copy (st : St) (tid d s : Nat) (h : d ≠ s) :
    noClr (pre st tid (.sCopy d s)) =
      sem (strCtx st tid d s siteCopy none) String_dtor ++ sem (strCtx st tid d s siteCopy none) String_copy := by
  cases hs : st.slots s <;>
    simp [pre, h, hs, rel, noClr, sem, exec, String_dtor, String_copy, strCtx, evalC, evalP, isBlkDen, isStaticDen, isNoneH,
      Handle.isBlk, setP, emit, viewVal, view]

/-- `S[d] = S[s]` -/
theorem tie_String_assign (st : St) (tid d s : Nat) :
    noClr (pre st tid (.sAssign d s)) = sem (strCtx st tid d s siteAssign none) String_assign := by
  cases hs : st.slots s <;>
    simp [pre, hs, rel, shareAssign, noClr, sem, exec, String_assign, strCtx, evalC, evalP, isBlkDen, Handle.isBlk, setP, emit]

/-- `S[d].~String(); new(&S[d]) String` -/
theorem tie_String_dtor_default (st : St) (tid d : Nat) :
    noClr (pre st tid (.sDel d)) =
      sem (strCtx st tid d d siteCtor none) String_dtor ++ sem (strCtx st tid d d siteCtor none) String_default := by
  simp [pre, rel, noClr, sem, exec, String_dtor, String_default, strCtx, evalP, setP, emit]

/-- `S[d].attach(mem, len)` and `S[d].~String(); new(&S[d]) String("literal")` -/
theorem tie_String_attach (st : St) (tid d : Nat) (bytes : List Nat) :
    noClr (pre st tid (.sLit d bytes)) = sem (strCtx st tid d d siteCtor (some (tagStr, bytes))) String_attach
    ∧ noClr (pre st tid (.sLit d bytes)) =
        sem (strCtx st tid d d siteCtor (some (tagStr, bytes))) String_dtor ++
          sem (strCtx st tid d d siteCtor (some (tagStr, bytes))) String_literal := by
  constructor <;>
    simp [pre, rel, noClr, sem, exec, String_attach, String_dtor, String_literal, strCtx, evalP, setP, emit]

/-- the same for attached memory that is not terminated (`sLitU`, Nested.lean) -/
theorem tie_String_attach_unterminated (st : St) (tid d : Nat) (bytes : List Nat) :
    noClr (preN st tid (.sLitU d bytes)) = sem (strCtx st tid d d siteCtor (some (tagStrU, bytes))) String_attach := by
  simp [preN, rel, noClr, sem, exec, String_attach, strCtx, evalP, setP, emit]

/-! ### Variant -/

/-- `V[d].~Variant(); new(&V[d]) Variant(V[s])` -/
theorem tie_Variant_copy (st : St) (tid d s : Nat) (h : d ≠ s) :
    noClr (pre st tid (.vCopy d s)) = sem (boxCtx st tid d s) Variant_dtor ++ sem (boxCtx st tid d s) Variant_copy := by
  cases hs : st.slots s <;>
    simp [pre, h, hs, rel, noClr, sem, exec, Variant_dtor, Variant_copy, boxCtx, evalC, evalP, isBlkDen, Handle.isBlk, setP,
      emit, inlOf]

/-- `V[d].clear()` -/
theorem tie_Variant_clear (st : St) (tid d : Nat) :
    noClr (pre st tid (.vClear d)) = sem (boxCtx st tid d d) Variant_clear := by
  simp [pre, rel, noClr, sem, exec, Variant_clear, boxCtx, evalP, setP, emit]

/-- `V[d] = V[s]` (incl. the self test; the assigned value may live inside the payload that is released: increment first) -/
theorem tie_Variant_assign (st : St) (tid d s : Nat) :
    noClr (pre st tid (.vAssign d s)) = sem (boxCtx st tid d s) Variant_assign := by
  by_cases h : d = s
  · subst h; simp [pre, boxAssign, noClr, sem, exec, Variant_assign, boxCtx, evalC]
  · cases hs : st.slots s <;>
      simp [pre, boxAssign, h, hs, rel, shareAssign, noClr, sem, exec, Variant_assign, boxCtx, evalC, evalP, isBlkDen,
        Handle.isBlk, setP, emit, inlOf]

/-! ### Xml::Variant (its handles are never inline) -/

theorem tie_XmlVariant_copy (st : St) (tid d s : Nat) (h : d ≠ s) (hi : ∀ tag val, st.slots s ≠ .inl tag val) :
    noClr (pre st tid (.xCopy d s)) = sem (boxCtx st tid d s) XmlVariant_dtor ++ sem (boxCtx st tid d s) XmlVariant_copy := by
  cases hs : st.slots s with
  | inl tag val => exact absurd hs (hi tag val)
  | _ =>
    simp [pre, h, hs, rel, noClr, sem, exec, XmlVariant_dtor, XmlVariant_copy, boxCtx, evalC, evalP, isBlkDen, Handle.isBlk,
      setP, emit]

theorem tie_XmlVariant_clear (st : St) (tid d : Nat) :
    noClr (pre st tid (.xClear d)) = sem (boxCtx st tid d d) XmlVariant_clear := by
  simp [pre, rel, noClr, sem, exec, XmlVariant_clear, boxCtx, evalP, setP, emit]

theorem tie_XmlVariant_assign (st : St) (tid d s : Nat) (hi : ∀ tag val, st.slots s ≠ .inl tag val) :
    noClr (pre st tid (.xAssign d s)) = sem (boxCtx st tid d s) XmlVariant_assign := by
  by_cases h : d = s
  · subst h; simp [pre, boxAssign, noClr, sem, exec, XmlVariant_assign, boxCtx, evalC]
  · cases hs : st.slots s with
    | inl tag val => exact absurd hs (hi tag val)
    | _ =>
      simp [pre, boxAssign, h, hs, rel, shareAssign, noClr, sem, exec, XmlVariant_assign, boxCtx, evalC, evalP, isBlkDen,
        Handle.isBlk, setP, emit]

/-! ### RefCount::Ptr (its handles are never inline) -/

/-- `P[d].~Ptr(); new(&P[d]) Ptr(P[s])`, the converting constructor and `Ptr(D*)` with the raw pointer of a managed object -/
theorem tie_Ptr_copy (st : St) (tid d s : Nat) (h : d ≠ s) (hi : ∀ tag val, st.slots s ≠ .inl tag val) :
    ∀ body, body ∈ [Ptr_copy, Ptr_convert, Ptr_fromRaw] →
      noClr (pre st tid (.pCopy d s)) = sem (ptrCtx st st tid d s) Ptr_dtor ++ sem (ptrCtx st st tid d s) body := by
  intro body hb
  simp only [List.mem_cons, List.not_mem_nil, or_false] at hb
  cases hs : st.slots s with
  | inl tag val => exact absurd hs (hi tag val)
  | _ =>
    rcases hb with rfl | rfl | rfl <;>
      simp [pre, h, hs, noClr_append, sem, exec, Ptr_dtor, Ptr_copy, Ptr_convert, Ptr_fromRaw, ptrCtx, evalC, evalP, isBlkDen,
        Handle.isBlk, setP, emit, isNoneH, noClr]

/-- `P[d] = P[s]` for a non-null source (all three `operator=`): increment FIRST, then release (D37), then the stores -/
theorem tie_Ptr_assign_counted (st st1 : St) (tid d s b : Nat) (hs : st.slots s = .blk b)
    (hinc : astep st tid (.inc (tmpT tid) s) = some st1) :
    ∀ body, body ∈ [Ptr_assign, Ptr_assignConvert, Ptr_assignRaw] →
      noClr (pre st tid (.pAssign d s)) = sem (ptrCtx st st1 tid d s) body := by
  intro body hb
  simp only [List.mem_cons, List.not_mem_nil, or_false] at hb
  rcases hb with rfl | rfl | rfl <;>
    simp [pre, ptrAssign, hs, hinc, noClr_append, sem, exec, Ptr_assign, Ptr_assignConvert, Ptr_assignRaw, ptrCtx, evalC, evalP,
      isBlkDen, Handle.isBlk, setP, emit, noClr]

/-- `P[d] = P[s]` for a null source, `P[d] = Ptr()` -/
theorem tie_Ptr_assign_null (st : St) (tid d s : Nat) (hs : st.slots s = .none) :
    ∀ body, body ∈ [Ptr_assign, Ptr_assignConvert, Ptr_assignRaw] →
      noClr (pre st tid (.pAssign d s)) = sem (ptrCtx st st tid d s) body
      ∧ noClr (pre st tid (.pClear d)) = sem (ptrCtx st st tid d s) body := by
  intro body hb
  simp only [List.mem_cons, List.not_mem_nil, or_false] at hb
  rcases hb with rfl | rfl | rfl <;>
    simp [pre, ptrAssign, hs, sem, exec, Ptr_assign, Ptr_assignConvert, Ptr_assignRaw, ptrCtx, evalC, evalP,
      isBlkDen, Handle.isBlk, setP, emit, isNoneH]

/-- `P[a].swap(P[b])`: both fields exchanged (D14), no counter touched -/
theorem tie_Ptr_swap (st : St) (tid a b : Nat) :
    pre st tid (.pSwap a b) = sem (ptrCtx st st tid a b) Ptr_swap ∧ fieldsMirror Ptr_swap = true := by
  refine ⟨?_, by decide⟩
  simp [pre, sem, exec, Ptr_swap, ptrCtx, evalP, setP]

/-- every RefCount::Ptr body treats the uncounted field `obj` exactly like the counted field `refObj` -/
theorem tie_Ptr_fields_mirror :
    ∀ body, body ∈ [Ptr_default, Ptr_copy, Ptr_convert, Ptr_fromRaw, Ptr_dtor, Ptr_assign, Ptr_assignConvert, Ptr_assignRaw, Ptr_swap] →
      fieldsMirror body = true := by decide

/-- non-vacuity / sensitivity: the decrement-first order of D37 and a swap of one field only are NOT the model's lists -/
def twoObjs : St := (apiRun (init nTotal) 0 [.pNew 12 1, .pNew 13 2]).getD (init nTotal)

example : sem (ptrCtx twoObjs twoObjs 0 12 13)
    (.seq (.bind .other) (.seq (.release .self) (.seq (.ite (.counted (.loc 0)) (.inc (.loc 0)) .skip) (.store .self (.loc 0)))))
    = [.dec 12, .free, .inc 17 13, .move 12 17]
    ∧ noClr (pre twoObjs 0 (.pAssign 12 13)) = [.inc 17 13, .dec 12, .free, .move 12 17] := by
  constructor <;> rfl
example : fieldsMirror (.seq (.bindO .other) (.seq (.storeO .other .self) (.storeO .self (.loc 0)))) = false := by decide

end Nstd.Rc
