import Nstd.Rc.Ir
import Nstd.Rc.Nested
import Nstd.Generated.RcBodies
/-
  Property C09, tie by translation: the step lists of the model's calls ARE the interpretation (`Ir.sem`) of the bodies that
  tools/gen_rc.py translated from the current String.hpp / Variant.hpp / Document/Xml.hpp / RefCount.hpp, for every state
  (up to `clr`, the marker step that changes nothing).  See Nstd/Rc/Ir.lean for the interpretation.
-/
namespace Nstd.Rc
open Nstd.Rc.Ir
open Nstd.Generated.RcBodies

/-- String: release = `dec; free`, a copy allocates the bytes seen through the argument with the capacity of that site -/
def strCtx (st : St) (tid d s site : Nat) (arg : Option (Nat × List Nat)) : Ctx :=
  { st := st, tid := tid, d := d, s := s, relOf := fun v => [.dec v, .free],
    allocOf := fun t => [.alloc t tagStr (viewVal st s) (st.capTab site (viewVal st s).length)], argInl := arg }

/-- Variant / Xml::Variant: release = `dec; free` (the destructor of the content runs at `free`: the cascade of `runC`) -/
def boxCtx (st : St) (tid d s : Nat) : Ctx :=
  { st := st, tid := tid, d := d, s := s, relOf := fun v => [.dec v, .free],
    allocOf := fun _ => [.move d d], argInl := none }

/-- RefCount::Ptr: release = the model's release list of the slot in state `stR`, which includes the destructor of the
    pointee (the harness' Node releases its `next` handle) -/
def ptrCtx (st stR : St) (tid d s : Nat) : Ctx :=
  { st := st, tid := tid, d := d, s := s, relOf := fun v => noClr (relP stR tid v relFuel),
    allocOf := fun _ => [.move d d], argInl := none }

theorem noClr_append (a b : List Act) : noClr (a ++ b) = noClr a ++ noClr b := by simp [noClr]

theorem viewVal_inl {st : St} {s tag : Nat} {val : List Nat} (h : st.slots s = .inl tag val) : viewVal st s = val := by
  simp [viewVal, view, h]

/-! ### String -/

/-- `S[d].~String(); new(&S[d]) String(S[s])` -/
theorem tie_String_copy (st : St) (tid d s : Nat) (h : d ≠ s) :
    noClr (pre st tid (.sCopy d s)) =
      sem (strCtx st tid d s siteCopy none) String_dtor ++ sem (strCtx st tid d s siteCopy none) String_copy := by
  cases hs : st.slots s <;>
    simp [pre, h, hs, rel, noClr, sem, exec, isGuard, String_dtor, String_copy, strCtx, evalC, evalP, isBlkDen, isStaticDen, isNoneH,
      Handle.isBlk, setP, emit, viewVal, view]

/-- what the translated `operator=` does with the static empty String as source: true = it stores the static descriptor
    (two steps: `dec; free`), false = it allocates an empty block (three steps) -/
def emptyAssignIsStatic (body : Stmt) : Bool := (sem (strCtx (init 2) 0 0 1 siteAssign none) body).length == 2

/-- a state in which both String variables designate the same counted block -/
def sharedSt : St := { init 2 with slots := fun _ => .blk 0 }

/-- what the translated `operator=` does when both handles already designate the same counted block: true = nothing at all,
    false = increment and decrement -/
def sameAssignSkips (body : Stmt) : Bool := (sem (strCtx sharedSt 0 0 1 siteAssign none) body).isEmpty

/-- `S[d] = S[s]`: the model's list is the translated body, for the two policies of `operator=` that the body has (`assignEmptyStatic`,
    `assignSameSkip`: parameters of the model measured on the real class; harmless change C09-h5 flips both — neither touches the
    property: an empty String needs no block, and the increment and the decrement through two handles of one block cancel) -/
theorem tie_String_assign (st : St) (tid d s : Nat) (hflag : st.assignEmptyStatic = emptyAssignIsStatic String_assign)
    (hskip : st.assignSameSkip = sameAssignSkips String_assign) :
    noClr (pre st tid (.sAssign d s)) = sem (strCtx st tid d s siteAssign none) String_assign := by
  simp [emptyAssignIsStatic, sem, exec, isGuard, String_assign, strCtx, evalC, evalP, isBlkDen, isStaticDen, isNoneH, Handle.isBlk,
    setP, emit, init] at hflag
  simp [sameAssignSkips, sharedSt, sem, exec, isGuard, String_assign, strCtx, evalC, evalP, isBlkDen, isStaticDen, isNoneH, Handle.isBlk,
    setP, emit, init] at hskip
  cases hs : st.slots s with
  | none =>
    simp [pre, hs, hflag, rel, noClr, sem, exec, isGuard, String_assign, strCtx, evalC, evalP, isBlkDen, isStaticDen, isNoneH,
      Handle.isBlk, setP, emit, viewVal, view]
  | inl tag val =>
    simp [pre, hs, rel, noClr, sem, exec, isGuard, String_assign, strCtx, evalC, evalP, isBlkDen, isStaticDen, isNoneH,
      Handle.isBlk, setP, emit, viewVal, view]
  | blk b =>
    by_cases hd : st.slots d = .blk b
    · simp [pre, hs, hd, hskip, shareAssign, noClr, sem, exec, isGuard, String_assign, strCtx, evalC, evalP, isBlkDen, Handle.isBlk, setP, emit]
    · have hd' : ¬ Handle.blk b = st.slots d := fun e => hd e.symm
      simp [pre, hs, hd, hd', hskip, shareAssign, noClr, sem, exec, isGuard, String_assign, strCtx, evalC, evalP, isBlkDen, Handle.isBlk,
        setP, emit]

/-- `S[d].~String(); new(&S[d]) String` -/
theorem tie_String_dtor_default (st : St) (tid d : Nat) :
    noClr (pre st tid (.sDel d)) =
      sem (strCtx st tid d d siteCtor none) String_dtor ++ sem (strCtx st tid d d siteCtor none) String_default := by
  simp [pre, rel, noClr, sem, exec, isGuard, String_dtor, String_default, strCtx, evalP, setP, emit]

/-- `S[d].attach(mem, len)` and `S[d].~String(); new(&S[d]) String("literal")` -/
theorem tie_String_attach (st : St) (tid d : Nat) (bytes : List Nat) :
    noClr (pre st tid (.sLit d bytes)) = sem (strCtx st tid d d siteCtor (some (tagStr, bytes))) String_attach
    ∧ noClr (pre st tid (.sLit d bytes)) =
        sem (strCtx st tid d d siteCtor (some (tagStr, bytes))) String_dtor ++
          sem (strCtx st tid d d siteCtor (some (tagStr, bytes))) String_literal := by
  constructor <;>
    simp [pre, rel, noClr, sem, exec, isGuard, String_attach, String_dtor, String_literal, strCtx, evalP, setP, emit]

/-- the same for attached memory that is not terminated (`sLitU`, Nested.lean) -/
theorem tie_String_attach_unterminated (st : St) (tid d : Nat) (bytes : List Nat) :
    noClr (pre st tid (.gNew d tagStrU true bytes 0)) = sem (strCtx st tid d d siteCtor (some (tagStrU, bytes))) String_attach := by
  simp [pre, rel, noClr, sem, exec, isGuard, String_attach, strCtx, evalP, setP, emit]

/-! ### Variant -/

/-- `V[d].~Variant(); new(&V[d]) Variant(V[s])` -/
theorem tie_Variant_copy (st : St) (tid d s : Nat) (h : d ≠ s) :
    noClr (pre st tid (.vCopy d s)) = sem (boxCtx st tid d s) Variant_dtor ++ sem (boxCtx st tid d s) Variant_copy := by
  cases hs : st.slots s <;>
    simp [pre, h, hs, rel, noClr, sem, exec, isGuard, Variant_dtor, Variant_copy, boxCtx, evalC, evalP, isBlkDen, Handle.isBlk, setP,
      emit, inlOf]

/-- `V[d].clear()` -/
theorem tie_Variant_clear (st : St) (tid d : Nat) :
    noClr (pre st tid (.vClear d)) = sem (boxCtx st tid d d) Variant_clear := by
  simp [pre, rel, noClr, sem, exec, isGuard, Variant_clear, boxCtx, evalP, setP, emit]

/-- `V[d] = V[s]` (incl. the self test; the assigned value may live inside the payload that is released: increment first) -/
theorem tie_Variant_assign (st : St) (tid d s : Nat) :
    noClr (pre st tid (.vAssign d s)) = sem (boxCtx st tid d s) Variant_assign := by
  by_cases h : d = s
  · subst h; simp [pre, boxAssign, noClr, sem, exec, isGuard, Variant_assign, boxCtx, evalC]
  · cases hs : st.slots s <;>
      simp [pre, boxAssign, h, hs, rel, shareAssign, noClr, sem, exec, isGuard, Variant_assign, boxCtx, evalC, evalP, isBlkDen,
        Handle.isBlk, setP, emit, inlOf]

/-- `Variant::swap` calls only translated members: the objects of the calls and their interpretation -/
def slotOf (tid a b : Nat) : Obj → Nat
  | .this => a
  | .arg => b
  | .tmp => tmpU tid

def semCall (st : St) (tid a b : Nat) : Call → List Act
  | .copyCtor x y => sem (boxCtx st tid (slotOf tid a b x) (slotOf tid a b y)) Variant_copy
  | .assign x y => sem (boxCtx st tid (slotOf tid a b x) (slotOf tid a b y)) Variant_assign
  | .dtor x => sem (boxCtx st tid (slotOf tid a b x) (slotOf tid a b x)) Variant_dtor

/-- `V[a].swap(V[b])`: the translated body is a sequence of calls (`Variant tmp = other; other = *this; *this = tmp;` and the
    destructor of the temporary); the model's `pre` is the first call (the copy constructor on the scratch slot), the model's `post`
    the remaining calls, each the interpretation of the translated member -/
theorem tie_Variant_swap (st s1 : St) (tid a b : Nat) (ha : a ≠ tmpU tid) :
    ∃ c0 rest, Variant_swap = c0 :: rest ∧ pre st tid (.vSwap a b) = semCall st tid a b c0
      ∧ noClr (post s1 tid (.vSwap a b)) = (rest.map (semCall s1 tid a b)).flatten := by
  refine ⟨_, _, rfl, ?_, ?_⟩
  · cases hs : st.slots b <;>
      simp [pre, hs, semCall, slotOf, sem, exec, isGuard, Variant_copy, boxCtx, evalC, evalP, isBlkDen, Handle.isBlk, setP, emit, inlOf]
  · have e1 := tie_Variant_assign s1 tid b a
    simp only [pre] at e1
    have ha' : ¬ tmpU tid = a := fun e => ha e.symm
    cases ht : s1.slots (tmpU tid) <;>
      simp only [post, ht, noClr_append, e1, List.map, List.flatten_cons, List.flatten_nil, semCall, slotOf, List.append_nil] <;>
      simp [noClr, rel, shareAssign, sem, exec, isGuard, Variant_assign, Variant_dtor, boxCtx, evalC, evalP, isBlkDen, Handle.isBlk,
        setP, emit, inlOf, ht, ha, ha']

/-! ### Xml::Variant (its handles are never inline) -/

theorem tie_XmlVariant_copy (st : St) (tid d s : Nat) (h : d ≠ s) (hi : ∀ tag val, st.slots s ≠ .inl tag val) :
    noClr (pre st tid (.xCopy d s)) = sem (boxCtx st tid d s) XmlVariant_dtor ++ sem (boxCtx st tid d s) XmlVariant_copy := by
  cases hs : st.slots s with
  | inl tag val => exact absurd hs (hi tag val)
  | _ =>
    simp [pre, h, hs, rel, noClr, sem, exec, isGuard, XmlVariant_dtor, XmlVariant_copy, boxCtx, evalC, evalP, isBlkDen, Handle.isBlk,
      setP, emit]

theorem tie_XmlVariant_clear (st : St) (tid d : Nat) :
    noClr (pre st tid (.xClear d)) = sem (boxCtx st tid d d) XmlVariant_clear := by
  simp [pre, rel, noClr, sem, exec, isGuard, XmlVariant_clear, boxCtx, evalP, setP, emit]

theorem tie_XmlVariant_assign (st : St) (tid d s : Nat) (hi : ∀ tag val, st.slots s ≠ .inl tag val) :
    noClr (pre st tid (.xAssign d s)) = sem (boxCtx st tid d s) XmlVariant_assign := by
  by_cases h : d = s
  · subst h; simp [pre, boxAssign, noClr, sem, exec, isGuard, XmlVariant_assign, boxCtx, evalC]
  · cases hs : st.slots s with
    | inl tag val => exact absurd hs (hi tag val)
    | _ =>
      simp [pre, boxAssign, h, hs, rel, shareAssign, noClr, sem, exec, isGuard, XmlVariant_assign, boxCtx, evalC, evalP, isBlkDen,
        Handle.isBlk, setP, emit]


/-! ### bodies with the plain counter read: `pre` = the body up to and including the read (`mode 1`), `post` = the body from
    the read on, decided by the outcome of the read in the state after `pre` (`mode 2`, `writing := isWriting s1 tid`) -/

/-- `String::detach(copyLength, minCapacity)` as called with the new content `nv` and the capacity `cap` of the clone -/
def detCtx (st : St) (tid d mode : Nat) (ok w : Bool) (nv : List Nat) (cap : Nat) : Ctx :=
  { st := st, tid := tid, d := d, s := d, relOf := fun v => [.dec v, .free], allocOf := fun t => [.alloc t tagStr nv cap],
    argInl := none, mode := mode, readOk := ok, writing := w, wacts := [.write nv] }

theorem sem_detach_pre (st : St) (tid d : Nat) (ok w : Bool) (nv : List Nat) (cap : Nat) :
    sem (detCtx st tid d 1 ok w nv cap) String_detach = [.readRef d ok] := by
  simp [sem, exec, isGuard, String_detach, detCtx, emit]

theorem sem_detach_post (st : St) (tid d : Nat) (ok w : Bool) (nv : List Nat) (cap : Nat) :
    sem (detCtx st tid d 2 ok w nv cap) String_detach = if w then [.write nv] else cloneAllocFirst tid d tagStr nv cap := by
  cases w <;> simp [sem, exec, isGuard, String_detach, detCtx, emit, evalC, evalP, setP, cloneAllocFirst]

/-- every caller of `detach`: the model's `pre` is the translated body up to its plain read, the model's `post` the rest of the
    translated body (in place: the guarded write; otherwise allocate, copy, release the OLD block, store — in this order) -/
theorem tie_String_detach (st s1 : St) (tid d : Nat) :
    (∀ bytes, pre st tid (.sAppend d bytes) = sem (detCtx st tid d 1 ((viewVal st d).length + bytes.length ≤ blkCap st d) false [] 0) String_detach
      ∧ post s1 tid (.sAppend d bytes) = sem (detCtx s1 tid d 2 true (isWriting s1 tid) (viewVal s1 d ++ bytes)
          (detCap s1 d (viewVal s1 d ++ bytes).length)) String_detach)
    ∧ (∀ n, pre st tid (.sReserve d n) = sem (detCtx st tid d 1 (max n (viewVal st d).length ≤ blkCap st d) false [] 0) String_detach
      ∧ post s1 tid (.sReserve d n) = sem (detCtx s1 tid d 2 true (isWriting s1 tid) (viewVal s1 d)
          (detCap s1 d (max n (viewVal s1 d).length))) String_detach)
    ∧ (∀ n, pre st tid (.sResize d n) = sem (detCtx st tid d 1 (n ≤ blkCap st d) false [] 0) String_detach
      ∧ post s1 tid (.sResize d n) = sem (detCtx s1 tid d 2 true (isWriting s1 tid) ((viewVal s1 d).take n)
          (detCap s1 d n)) String_detach)
    ∧ (∀ x, pre st tid (.sPrintf d x) = sem (detCtx st tid d 1 (200 ≤ blkCap st d) false [] 0) String_detach
      ∧ post s1 tid (.sPrintf d x) = sem (detCtx s1 tid d 2 true (isWriting s1 tid) (decDigits x)
          (detCap s1 d 200)) String_detach)
    ∧ (∀ nv, pre st tid (.gEdit d false nv) = sem (detCtx st tid d 1 true false [] 0) String_detach
      ∧ post s1 tid (.gEdit d false nv) = sem (detCtx s1 tid d 2 true (isWriting s1 tid) nv (detCap s1 d nv.length)) String_detach) := by
  refine ⟨fun bytes => ⟨?_, ?_⟩, fun n => ⟨?_, ?_⟩, fun n => ⟨?_, ?_⟩, fun x => ⟨?_, ?_⟩, fun nv => ⟨?_, ?_⟩⟩ <;>
    first
    | (rw [sem_detach_pre]; try rfl)
    | (rw [sem_detach_post]; try (simp only [post, postN]); try (cases isWriting s1 tid <;> simp))

/-- `replace(char, char)`, `toLowerCase()`, `operator char*()`, `detach()` (`sEdit`): the same, with the edited bytes -/
theorem tie_String_detach_edit (st s1 : St) (tid d kind a b : Nat) :
    pre st tid (.sEdit d kind a b) = sem (detCtx st tid d 1 true false [] 0) String_detach
    ∧ ∃ nv, post s1 tid (.sEdit d kind a b) = sem (detCtx s1 tid d 2 true (isWriting s1 tid) nv (detCap s1 d nv.length)) String_detach := by
  refine ⟨by rw [sem_detach_pre]; try rfl, ?_⟩
  refine ⟨if kind = 0 then (viewVal s1 d).map (fun c => if c = a then b else c) else if kind = 1 then (viewVal s1 d).map lowerByte
    else viewVal s1 d, ?_⟩
  rw [sem_detach_post]; try (simp only [post])
  try (cases isWriting s1 tid <;> simp)

/-- `prepend`: `String copy(*this)` (the translated copy constructor on the temporary), `detach`, `~copy` -/
theorem tie_String_prepend (st s1 : St) (tid d : Nat) (bytes : List Nat) :
    pre st tid (.sPrepend d bytes) = sem (strCtx st tid (tmpU tid) d siteCopy none) String_copy ++
        sem (detCtx st tid d 1 ((viewVal st d).length + bytes.length ≤ blkCap st d) false [] 0) String_detach
    ∧ noClr (post s1 tid (.sPrepend d bytes)) =
        sem (detCtx s1 tid d 2 true (isWriting s1 tid) (bytes ++ viewVal s1 d) (detCap s1 d (bytes ++ viewVal s1 d).length)) String_detach
          ++ sem (strCtx s1 tid (tmpU tid) (tmpU tid) siteCopy none) String_dtor := by
  constructor
  · rw [sem_detach_pre]
    cases hs : st.slots d <;>
      simp [pre, hs, sem, exec, isGuard, String_copy, strCtx, evalC, evalP, isBlkDen, isStaticDen, isNoneH, Handle.isBlk, setP, emit,
        viewVal, view]
  · rw [sem_detach_post]; simp only [post]
    cases isWriting s1 tid <;>
      simp [rel, noClr, cloneAllocFirst, sem, exec, isGuard, String_dtor, strCtx, evalP, emit]

/-- `String::clear()` -/
theorem tie_String_clear (st s1 : St) (tid d : Nat) :
    pre st tid (.sClear d) = sem (detCtx st tid d 1 true false [] 0) String_clear
    ∧ noClr (post s1 tid (.sClear d)) = sem (detCtx s1 tid d 2 true (isWriting s1 tid) [] 0) String_clear := by
  constructor
  · simp [pre, sem, exec, isGuard, String_clear, detCtx, emit]
  · cases h : isWriting s1 tid <;>
      simp [post, h, rel, noClr, sem, exec, isGuard, String_clear, detCtx, emit, evalC, evalP, setP]

/-- mutable accessors and `operator=(T)` of Variant / Xml::Variant: the read decides between the guarded in-place
    modification `wacts` (through the returned reference / the assignment of the content) and the clone `allocOf` -/
def accCtx (st : St) (tid d mode : Nat) (ok w tyOk : Bool) (wacts : List Act) (allocOf : Nat → List Act) : Ctx :=
  { st := st, tid := tid, d := d, s := d, relOf := fun v => [.dec v, .free], allocOf := allocOf,
    argInl := none, mode := mode, readOk := ok, writing := w, typeOk := tyOk, wacts := wacts }

/-- the four mutable accessors `toString()`, `toList()`, `toArray()`, `toMap()`: allocate and copy-construct the content FIRST,
    then `clear()`, then store (seeded C09-5 / C07-5: `clear()` before the copy) -/
theorem sem_accessor (st : St) (tid d : Nat) (ok w tyOk : Bool) (wacts : List Act) (allocOf : Nat → List Act) :
    ∀ body, body ∈ [Variant_toString, Variant_toList, Variant_toArray, Variant_toMap] →
      sem (accCtx st tid d 1 ok w tyOk wacts allocOf) body = [.readRef d ok]
      ∧ sem (accCtx st tid d 2 ok w tyOk wacts allocOf) body =
          if w then wacts else allocOf (tmpT tid) ++ [.dec d, .free, .move d (tmpT tid)] := by
  intro body hb
  simp only [List.mem_cons, List.not_mem_nil, or_false] at hb
  rcases hb with rfl | rfl | rfl | rfl <;> cases w <;>
    simp [sem, exec, isGuard, Variant_toString, Variant_toList, Variant_toArray, Variant_toMap, accCtx, emit, evalC, evalP, setP]

/-- `operator=(const String&/List&/Array&/HashMap&)` of Variant and `operator=(const String&)` of Xml::Variant: `clear()`, then
    a fresh box — or the fresh box first and then `clear()` (the new value is built from the argument: which of the two private
    steps comes first touches no counter; harmless change C09-h4) -/
theorem sem_assignT (st : St) (tid d : Nat) (ok w tyOk : Bool) (wacts : List Act) (allocOf : Nat → List Act) :
    ∀ body, body ∈ [Variant_assignString, Variant_assignList, Variant_assignArray, Variant_assignMap, XmlVariant_assignString] →
      sem (accCtx st tid d 1 ok w tyOk wacts allocOf) body = [.readRef d ok]
      ∧ (sem (accCtx st tid d 2 ok w tyOk wacts allocOf) body = (if w then wacts else [.dec d, .free] ++ allocOf d)
         ∨ sem (accCtx st tid d 2 ok w tyOk wacts allocOf) body =
             (if w then wacts else allocOf (tmpT tid) ++ [.dec d, .free, .move d (tmpT tid)])) := by
  intro body hb
  simp only [List.mem_cons, List.not_mem_nil, or_false] at hb
  rcases hb with rfl | rfl | rfl | rfl | rfl <;> refine ⟨?_, ?_⟩ <;> cases w <;>
    first
    | (simp [sem, exec, isGuard, Variant_assignString, Variant_assignList, Variant_assignArray, Variant_assignMap, XmlVariant_assignString,
        accCtx, emit, evalC, evalP, setP]; done)
    | (left; simp [sem, exec, isGuard, Variant_assignString, Variant_assignList, Variant_assignArray, Variant_assignMap, XmlVariant_assignString,
        accCtx, emit, evalC, evalP, setP]; done)
    | (right; simp [sem, exec, isGuard, Variant_assignString, Variant_assignList, Variant_assignArray, Variant_assignMap, XmlVariant_assignString,
        accCtx, emit, evalC, evalP, setP]; done)

/-- a model list `if w then wa else clear(); fresh box` is the translated body, or the translated body is the same with the fresh box
    allocated first -/
theorem assignT_post {st : St} {tid d : Nat} {w tyOk : Bool} {wa postL : List Act} {al : Nat → List Act} {body : Stmt}
    (hb : body ∈ [Variant_assignString, Variant_assignList, Variant_assignArray, Variant_assignMap, XmlVariant_assignString])
    (hpost : postL = if w then wa else [.dec d, .free] ++ al d) :
    postL = sem (accCtx st tid d 2 true w tyOk wa al) body
    ∨ (w = false ∧ sem (accCtx st tid d 2 true w tyOk wa al) body = al (tmpT tid) ++ [.dec d, .free, .move d (tmpT tid)]
        ∧ postL = [.dec d, .free] ++ al d) := by
  rcases (sem_assignT st tid d true w tyOk wa al body hb).2 with h | h
  · left; rw [h, hpost]
  · cases w
    · right; exact ⟨rfl, by simpa using h, by simpa using hpost⟩
    · left; rw [h, hpost]; simp

/-- `Xml::Variant::toElement()` (three branches, repaired by D16) -/
theorem sem_toElement (st : St) (tid d : Nat) (ok w tyOk : Bool) (wacts : List Act) (allocOf : Nat → List Act) :
    sem (accCtx st tid d 1 ok w tyOk wacts allocOf) XmlVariant_toElement = [.readRef d ok]
    ∧ sem (accCtx st tid d 2 ok w tyOk wacts allocOf) XmlVariant_toElement =
        if w then wacts else if tyOk then allocOf (tmpT tid) ++ [.dec d, .free, .move d (tmpT tid)] else [.dec d, .free] ++ allocOf d := by
  cases w <;> cases tyOk <;>
    simp [sem, exec, isGuard, XmlVariant_toElement, accCtx, emit, evalC, evalP, setP]

/-- `V[d].toString().append(bytes)` and `V[d].toMap().append(k, x)` (flat payloads) -/
theorem tie_Variant_toString_toMap (st s1 : St) (tid d : Nat) :
    (∀ bytes, ∃ wa al, pre st tid (.vAppStr d bytes) = sem (accCtx st tid d 1 (blkTag st d == some tagVStr) false true wa al) Variant_toString
        ∧ post s1 tid (.vAppStr d bytes) = sem (accCtx s1 tid d 2 true (isWriting s1 tid) true wa al) Variant_toString
        ∧ wa = [.write (viewVal s1 d ++ bytes)] ∧ ∃ v, al = fun t => [.alloc t tagVStr v 0])
    ∧ (∀ k x, ∃ wa al, pre st tid (.vPutM d k x) = sem (accCtx st tid d 1 (blkTag st d == some tagVMap) false true wa al) Variant_toMap
        ∧ post s1 tid (.vPutM d k x) = sem (accCtx s1 tid d 2 true (isWriting s1 tid) true wa al) Variant_toMap
        ∧ wa = [.write (mapPut (viewVal s1 d) k x)] ∧ ∃ v, al = fun t => [.alloc t tagVMap v 0]) := by
  constructor
  · intro bytes
    refine ⟨[.write (viewVal s1 d ++ bytes)], fun t => [.alloc t tagVStr ((if blkTag s1 d == some tagVStr then viewVal s1 d
      else if inlTag s1 d == some tagVInt then decDigits ((viewVal s1 d).headD 0) else []) ++ bytes) 0], ?_, ?_, rfl, _, rfl⟩
    · rw [(sem_accessor _ _ _ _ _ _ _ _ Variant_toString (by simp)).1]; try rfl
    · rw [(sem_accessor _ _ _ _ _ _ _ _ Variant_toString (by simp)).2]; simp only [post]
      cases isWriting s1 tid <;> simp [cloneAllocFirst]
  · intro k x
    refine ⟨[.write (mapPut (viewVal s1 d) k x)], fun t => [.alloc t tagVMap (mapPut (if blkTag s1 d == some tagVMap then viewVal s1 d else []) k x) 0],
      ?_, ?_, rfl, _, rfl⟩
    · rw [(sem_accessor _ _ _ _ _ _ _ _ Variant_toMap (by simp)).1]; try rfl
    · rw [(sem_accessor _ _ _ _ _ _ _ _ Variant_toMap (by simp)).2]; simp only [post]
      cases isWriting s1 tid <;> simp [cloneAllocFirst]

/-- `V[d].toList().append(Variant(x))` / `toArray()` on payloads with boxed elements (`postN`): the clone is `alloc` followed by
    the copy constructors of the elements (`copyEmb`), all BEFORE the release of the old payload -/
theorem tie_Variant_toList_toArray (st s1 : St) (tid d x : Nat) :
    (∃ wa al, preN st tid (.flat (.vPush d x)) = sem (accCtx st tid d 1 (blkTag st d == some tagVList) false true wa al) Variant_toList
        ∧ postN s1 tid (.flat (.vPush d x)) = sem (accCtx s1 tid d 2 true (isWriting s1 tid) true wa al) Variant_toList
        ∧ al = fun t => match blkOfTag s1 d tagVList with
            | some c => [.alloc t tagVList (viewVal s1 d ++ [x]) 0] ++ copyEmb tid c d s1.next t (embKs s1 c)
            | none => [.alloc t tagVList [x] 0])
    ∧ (∃ wa al, preN st tid (.flat (.vPushA d x)) = sem (accCtx st tid d 1 (blkTag st d == some tagVArr) false true wa al) Variant_toArray
        ∧ postN s1 tid (.flat (.vPushA d x)) = sem (accCtx s1 tid d 2 true (isWriting s1 tid) true wa al) Variant_toArray
        ∧ al = fun t => match blkOfTag s1 d tagVArr with
            | some c => [.alloc t tagVArr (viewVal s1 d ++ [x]) 0] ++ copyEmb tid c d s1.next t (embKs s1 c)
            | none => [.alloc t tagVArr [x] 0]) := by
  constructor
  · refine ⟨match blkOfTag s1 d tagVList with | some _ => [.write (viewVal s1 d ++ [x])] | none => [.write (viewVal s1 d)], _, ?_, ?_, rfl⟩
    · rw [(sem_accessor _ _ _ _ _ _ _ _ Variant_toList (by simp)).1]; try rfl
    · rw [(sem_accessor _ _ _ _ _ _ _ _ Variant_toList (by simp)).2]; simp only [postN, appendN, storeOpt]
      cases isWriting s1 tid <;> cases blkOfTag s1 d tagVList <;> simp
  · refine ⟨match blkOfTag s1 d tagVArr with | some _ => [.write (viewVal s1 d ++ [x])] | none => [.write (viewVal s1 d)], _, ?_, ?_, rfl⟩
    · rw [(sem_accessor _ _ _ _ _ _ _ _ Variant_toArray (by simp)).1]; try rfl
    · rw [(sem_accessor _ _ _ _ _ _ _ _ Variant_toArray (by simp)).2]; simp only [postN, appendN, storeOpt]
      cases isWriting s1 tid <;> cases blkOfTag s1 d tagVArr <;> simp

/-- `V[d] = String / List / Array / HashMap` and `X[d] = String`: `pre` = the body up to the read; `post` = the body from the read on:
    in place (the container assignment releases the old boxed elements: `dropEmb`) or `clear()` and a fresh box (`AssignTie`: or the
    fresh box first, see `assignT_post`) -/
def AssignTie (s1 : St) (tid d : Nat) (postL wa : List Act) (al : Nat → List Act) (body : Stmt) : Prop :=
  postL = sem (accCtx s1 tid d 2 true (isWriting s1 tid) true wa al) body
  ∨ (isWriting s1 tid = false ∧ sem (accCtx s1 tid d 2 true (isWriting s1 tid) true wa al) body = al (tmpT tid) ++ [.dec d, .free, .move d (tmpT tid)]
      ∧ postL = [.dec d, .free] ++ al d)

theorem tie_assignT (st s1 : St) (tid d : Nat) :
    (∀ bytes, ∃ wa, pre st tid (.vSetStr d bytes) = sem (accCtx st tid d 1 (blkTag st d == some tagVStr) false true wa (fun t => [.alloc t tagVStr bytes 0])) Variant_assignString
        ∧ AssignTie s1 tid d (post s1 tid (.vSetStr d bytes)) wa (fun t => [.alloc t tagVStr bytes 0]) Variant_assignString)
    ∧ (∀ k x, ∃ wa, pre st tid (.vSetMap d k x) = sem (accCtx st tid d 1 (blkTag st d == some tagVMap) false true wa (fun t => [.alloc t tagVMap [k, x] 0])) Variant_assignMap
        ∧ AssignTie s1 tid d (post s1 tid (.vSetMap d k x)) wa (fun t => [.alloc t tagVMap [k, x] 0]) Variant_assignMap)
    ∧ (∀ x, ∃ wa, preN st tid (.flat (.vSetList d x)) = sem (accCtx st tid d 1 (blkTag st d == some tagVList) false true wa (fun t => [.alloc t tagVList [x] 0])) Variant_assignList
        ∧ AssignTie s1 tid d (postN s1 tid (.flat (.vSetList d x))) wa (fun t => [.alloc t tagVList [x] 0]) Variant_assignList)
    ∧ (∀ x, ∃ wa, preN st tid (.flat (.vSetArr d x)) = sem (accCtx st tid d 1 (blkTag st d == some tagVArr) false true wa (fun t => [.alloc t tagVArr [x] 0])) Variant_assignArray
        ∧ AssignTie s1 tid d (postN s1 tid (.flat (.vSetArr d x))) wa (fun t => [.alloc t tagVArr [x] 0]) Variant_assignArray)
    ∧ (∀ bytes, ∃ wa, pre st tid (.xSetStr d bytes) = sem (accCtx st tid d 1 (blkTag st d == some tagXText) false true wa (fun t => [.alloc t tagXText bytes 0])) XmlVariant_assignString
        ∧ AssignTie s1 tid d (post s1 tid (.xSetStr d bytes)) wa (fun t => [.alloc t tagXText bytes 0]) XmlVariant_assignString) := by
  refine ⟨fun bytes => ⟨[.write bytes], ?_, ?_⟩, fun k x => ⟨[.write [k, x]], ?_, ?_⟩,
    fun x => ⟨[.write [x]] ++ (match blkOfTag s1 d tagVList with | some c => dropEmb tid c d (embKs s1 c) | none => []), ?_, ?_⟩,
    fun x => ⟨[.write [x]] ++ (match blkOfTag s1 d tagVArr with | some c => dropEmb tid c d (embKs s1 c) | none => []), ?_, ?_⟩,
    fun bytes => ⟨[.write bytes], ?_, ?_⟩⟩ <;>
  first
  | (rw [(sem_assignT _ _ _ _ _ _ _ _ _ (by simp)).1]; try rfl)
  | (refine assignT_post (by simp) ?_; simp only [post, postN]
     cases isWriting s1 tid <;> simp [cloneReleaseFirst] <;> try rfl)

/-- `X[d].toElement().type = bytes` (`postN`: the clone of a shared element copies the children before the release) -/
theorem tie_XmlVariant_toElement (st s1 : St) (tid d : Nat) (bytes : List Nat) :
    ∃ al, preN st tid (.flat (.xElem d bytes)) = sem (accCtx st tid d 1 (blkTag st d == some tagXElem) false true [.write bytes] al) XmlVariant_toElement
      ∧ postN s1 tid (.flat (.xElem d bytes)) =
          sem (accCtx s1 tid d 2 true (isWriting s1 tid) (blkOfTag s1 d tagXElem).isSome [.write bytes] al) XmlVariant_toElement
      ∧ al = fun t => match blkOfTag s1 d tagXElem with
          | some c => [.alloc t tagXElem bytes 0] ++ copyEmb tid c d s1.next t (embKs s1 c)
          | none => [.alloc t tagXElem bytes 0] := by
  refine ⟨_, ?_, ?_, rfl⟩
  · rw [(sem_toElement _ _ _ _ _ _ _ _).1]; try rfl
  · rw [(sem_toElement _ _ _ _ _ _ _ _).2]; simp only [postN]
    cases isWriting s1 tid <;> cases blkOfTag s1 d tagXElem <;> simp [cloneReleaseFirst]

/-! ### RefCount::Ptr (its handles are never inline) -/

/-- `P[d].~Ptr(); new(&P[d]) Ptr(P[s])`, the converting constructor and `Ptr(D*)` with the raw pointer of a managed object -/
theorem tie_Ptr_copy (st : St) (tid d s : Nat) (h : d ≠ s) (hi : ∀ tag val, st.slots s ≠ .inl tag val) :
    ∀ body, body ∈ [Ptr_copy, Ptr_convert, Ptr_fromRaw] →
      noClr (pre st tid (.pCopy d s)) = sem (ptrCtx st st tid d s) Ptr_dtor ++ sem (ptrCtx st st tid d s) body := by
  intro body hb
  simp only [List.mem_cons, List.not_mem_nil, or_false] at hb
  cases hs : st.slots s with
  | inl tag val => exact absurd hs (hi tag val)
  | _ =>
    rcases hb with rfl | rfl | rfl <;>
      simp [pre, h, hs, noClr_append, sem, exec, isGuard, Ptr_dtor, Ptr_copy, Ptr_convert, Ptr_fromRaw, ptrCtx, evalC, evalP, isBlkDen,
        Handle.isBlk, setP, emit, isNoneH, noClr]

/-- `P[d] = P[s]` for a non-null source (all three `operator=`): increment FIRST, then release (D37), then the stores -/
theorem tie_Ptr_assign_counted (st st1 : St) (tid d s b : Nat) (hs : st.slots s = .blk b)
    (hinc : astep st tid (.inc (tmpT tid) s) = some st1) :
    ∀ body, body ∈ [Ptr_assign, Ptr_assignConvert, Ptr_assignRaw] →
      noClr (pre st tid (.pAssign d s)) = sem (ptrCtx st st1 tid d s) body := by
  intro body hb
  simp only [List.mem_cons, List.not_mem_nil, or_false] at hb
  rcases hb with rfl | rfl | rfl <;>
    simp [pre, ptrAssign, hs, hinc, noClr_append, sem, exec, isGuard, Ptr_assign, Ptr_assignConvert, Ptr_assignRaw, ptrCtx, evalC, evalP,
      isBlkDen, Handle.isBlk, setP, emit, noClr]

/-- `P[d] = P[s]` for a null source, `P[d] = Ptr()` -/
theorem tie_Ptr_assign_null (st : St) (tid d s : Nat) (hs : st.slots s = .none) :
    ∀ body, body ∈ [Ptr_assign, Ptr_assignConvert, Ptr_assignRaw] →
      noClr (pre st tid (.pAssign d s)) = sem (ptrCtx st st tid d s) body
      ∧ noClr (pre st tid (.pClear d)) = sem (ptrCtx st st tid d s) body := by
  intro body hb
  simp only [List.mem_cons, List.not_mem_nil, or_false] at hb
  rcases hb with rfl | rfl | rfl <;>
    simp [pre, ptrAssign, hs, sem, exec, isGuard, Ptr_assign, Ptr_assignConvert, Ptr_assignRaw, ptrCtx, evalC, evalP,
      isBlkDen, Handle.isBlk, setP, emit, isNoneH]

/-- `P[a].swap(P[b])`: both fields exchanged (D14), no counter touched -/
theorem tie_Ptr_swap (st : St) (tid a b : Nat) :
    pre st tid (.pSwap a b) = sem (ptrCtx st st tid a b) Ptr_swap ∧ fieldsMirror Ptr_swap = true := by
  refine ⟨?_, by decide⟩
  simp [pre, sem, exec, isGuard, Ptr_swap, ptrCtx, evalP, setP]

/-- every RefCount::Ptr body treats the uncounted field `obj` exactly like the counted field `refObj` -/
theorem tie_Ptr_fields_mirror :
    ∀ body, body ∈ [Ptr_default, Ptr_copy, Ptr_convert, Ptr_fromRaw, Ptr_dtor, Ptr_assign, Ptr_assignConvert, Ptr_assignRaw, Ptr_swap] →
      fieldsMirror body = true := by decide

/-- non-vacuity / sensitivity: the decrement-first order of D37 and a swap of one field only are NOT the model's lists -/
def twoObjs : St := (apiRun (init nTotal) 0 [.pNew 12 1, .pNew 13 2]).getD (init nTotal)

example : sem (ptrCtx twoObjs twoObjs 0 12 13)
    (.seq (.bind 0 .other) (.seq (.release .self) (.seq (.ite (.counted (.loc 0)) (.inc (.loc 0)) .skip) (.store .self (.loc 0)))))
    = [.dec 12, .free, .inc 12 13]
    ∧ noClr (pre twoObjs 0 (.pAssign 12 13)) = [.inc 17 13, .dec 12, .free, .move 12 17] := by
  constructor <;> rfl
example : fieldsMirror (.seq (.bindO 0 .other) (.seq (.storeO .other .self) (.storeO .self (.loc 0)))) = false := by decide

end Nstd.Rc
