import Nstd.Common.Basic
import Nstd.Rc.Model
import Nstd.Rc.Nested
/-
  Line protocol of the Rc area (property C09).

  Single-threaded op lines (indices 0..3 inside each kind):
    snew d hex | slit d hex | scopy d s | sassign d s | sclear d | sappend d hex | sreserve d n | sdel d | sset d hex
    vcopy d s | vassign d s | vclear d | vseti d x | vsets d hex | vapp d hex | vpush d x | vswap a b | vsetl d x
    xcopy d s | xassign d s | xclear d | xsets d hex | xelem d hex
    pnew d x | pcopy d s | passign d s | pclear d | pswap a b
    vpushv d s | vgetv d s k | xaddc d s | xgetc d s k | apushv d s | agetv d s k    (payloads with several embedded handles, see Nested.lean)
    round 7 (a line is resolved to its call in the state in which the call STARTS):
    slitc d k (String(const char(&)[N]), k-th literal of `lits`) | scap d n (String(usize capacity)) | slitu d hex (attach to
    unterminated memory) | sconst d / sconstm d (operator const char*() const / non-const) | sdetach d (detach()) |
    sapps d s (append(const String&)) | sappc d c (append(char)) | spluss d s / splusc d c (operator+=) |
    spreps d s (prepend(const String&)) | supper d (toUpperCase) |
    vctors d hex | vctorl d x | vctora d x | vctorm d k x (Variant(const String&/List&/Array&/HashMap&)) |
    xctors d hex | xctore d hex (Xml::Variant(const String&) / (const Element&))
    end                      (destroy every handle)
  Observation after every op:
    `<16 handle tokens> | <payload table> | live=<n> bad=<n>`
    handle token: `n` (static empty/null descriptor), `i<tag>.<hex>` (inline value), `b<pid>`
    payload table (payload ids in order of first designation by a handle):
       `<pid>:L:<ref>:<tag>:<hex>` live, `<pid>:F` released once, `<pid>:X<k>` released k>1 times;
       counted objects, list payloads and Xml elements append `>` and their embedded handles (`n` / `b<pid>`,
       comma separated, `-` if there is none): the `next` handle, one token per list element, one per child

  Multi-threaded lines:
    hooks 0|1                whether the plain counter reads / in-place writes are scheduling points
    give <slot> <tid>        hand variable slot (0..15) to thread tid (1..3)
    prog <tid> <op line>     append an API call to the program of thread tid
    run <tid> <tid> ...      the schedule: each entry lets that thread perform its pending
                             scheduling-point step and run on to its next scheduling point
                             (threads that are not finished when the schedule ends are run to
                             completion in thread order)
  Output of `run`: `<trace> # <observation>` with one trace token per executed scheduling-point
  step: `<tid>.inc.<new ref>`, `<tid>.dec.<new ref>`, `<tid>.ref.<value read>`, `<tid>.wr`, and
  `<tid>.go` for the entry that lets a thread run on after an atomic operation (a thread is
  descheduled before AND after every atomic operation on a payload counter).
-/
open Nstd.Common
namespace Nstd.Rc

structure Thr where
  prog : List (List String) := []   -- API calls not yet started (op lines; resolved to a call when the call starts)
  acts : List Act := []         -- remaining steps of the current phase
  inPre : Option NOp := none    -- call whose `pre` phase is running (its `post` is still to be computed)
  started : Bool := false
  resume : Bool := false        -- it performed an atomic operation and waits to be scheduled again to run on

structure DSt where
  st : St
  seen : List Nat               -- block ids in order of first designation
  hooks : Bool
  thr : List Thr                -- threads 0..3 (0 unused in `run`)
  bad : Bool := false

def init0 : DSt := { st := init nTotal, seen := [], hooks := false, thr := List.replicate nThreads {} }

def idxOf (l : List Nat) (x : Nat) : Option Nat :=
  let rec go (l : List Nat) (i : Nat) : Option Nat :=
    match l with
    | [] => none
    | y :: r => if y = x then some i else go r (i + 1)
  go l 0

def scanVars (st : St) (seen : List Nat) : List Nat :=
  (List.range nVars).foldl (fun acc v =>
    match st.slots v with
    | .blk b => if acc.contains b then acc else acc ++ [b]
    | _ => acc) seen

/-- the embedded handles printed for a payload: the `next` handle of a counted object, one per element of a list
    payload, one per child of an Xml element -/
def embShown (st : St) (b : Nat) : List Nat :=
  match st.heap b with
  | some blk =>
    if blk.tag == tagObj then [embSlot b]
    else if blk.tag == tagVList || blk.tag == tagVArr then (List.range blk.val.length).map (embSlotK b)
    else if blk.tag == tagXElem then (embKs st b).map (embSlotK b)
    else []
  | none => []

/-- payloads designated only by a handle embedded in another payload get their id after the variables,
    in the order of the payload table -/
partial def closeSeen (st : St) (seen : List Nat) (i : Nat) : List Nat :=
  if i ≥ seen.length then seen
  else
    let b := seen.getD i 0
    let seen' := (embShown st b).foldl (fun acc e =>
      match st.slots e with
      | .blk c => if acc.contains c then acc else acc ++ [c]
      | _ => acc) seen
    closeSeen st seen' (i + 1)

def scanSeen (st : St) (seen : List Nat) : List Nat := closeSeen st (scanVars st seen) 0

def handleTok (st : St) (seen : List Nat) (v : Nat) : String :=
  match st.slots v with
  | .none => "n"
  | .inl tag val => s!"i{tag}.{toHex val}"
  | .blk b => match idxOf seen b with
    | some i => s!"b{i}"
    | none => "b?"

def payloadTok (st : St) (seen : List Nat) (i b : Nat) : String :=
  let embTok (e : Nat) : String := match st.slots e with
    | .blk c => (match idxOf seen c with | some k => s!"b{k}" | none => "b?")
    | _ => "n"
  match st.heap b with
  | some blk =>
    if st.freed b = 0 then
      let es := embShown st b
      s!"{i}:L:{blk.ref}:{blk.tag}:{toHex blk.val}" ++
        (if blk.tag == tagObj || blk.tag == tagVList || blk.tag == tagVArr || blk.tag == tagXElem then
          ">" ++ (if es.isEmpty then "-" else ",".intercalate (es.map embTok)) else "")
    else s!"{i}:X{st.freed b}"
  | none => if st.freed b = 1 then s!"{i}:F" else s!"{i}:X{st.freed b}"

def liveCount (st : St) : Nat := ((List.range st.next).filter (fun b => (st.heap b).isSome)).length

def obs (d : DSt) : String :=
  let hs := " ".intercalate ((List.range nVars).map (handleTok d.st d.seen))
  let ps := " ".intercalate ((List.range d.seen.length).map (fun i => payloadTok d.st d.seen i (d.seen.getD i 0)))
  s!"{hs} | {if ps.isEmpty then "-" else ps} | live={liveCount d.st} bad={d.st.viol}"

/-- driver only: the state functions (`upd` chains growing with the history) are re-tabulated into arrays; the
    state is extensionally the same on all slots < n and blocks < next, everything beyond is at its initial value -/
def compact (s : St) : St :=
  let sl := (Array.range s.n).map s.slots
  let ow := (Array.range s.n).map s.owner
  let hp := (Array.range s.next).map s.heap
  let fr := (Array.range s.next).map s.freed
  let pcs := (Array.range nThreads).map s.pc
  { s with slots := fun i => sl.getD i .none, owner := fun i => ow.getD i 0, heap := fun b => hp.getD b none,
           freed := fun b => fr.getD b 0, pc := fun t => pcs.getD t .idle }

def kindBase (k : Nat) : Nat := 4 * k

def idx (k : Nat) (t : String) : Option Nat := do
  let i ← t.toNat?
  if i < 4 then pure (kindBase k + i) else none

def num (t : String) : Option Nat := do
  let i ← t.toNat?
  if i < 256 then pure i else none

def parseFlat (ws : List String) : Option ApiOp :=
  match ws with
  | ["snew", d, h] => do pure (.sNew (← idx 0 d) (← fromHex h))
  | ["slit", d, h] => do pure (.sLit (← idx 0 d) (← fromHex h))
  | ["scopy", d, s] => do pure (.sCopy (← idx 0 d) (← idx 0 s))
  | ["sassign", d, s] => do pure (.sAssign (← idx 0 d) (← idx 0 s))
  | ["sclear", d] => do pure (.sClear (← idx 0 d))
  | ["sappend", d, h] => do pure (.sAppend (← idx 0 d) (← fromHex h))
  | ["sreserve", d, n] => do pure (.sReserve (← idx 0 d) (← num n))
  | ["sdel", d] => do pure (.sDel (← idx 0 d))
  | ["sset", d, h] => do pure (.sSet (← idx 0 d) (← fromHex h))
  | ["vsetl", d, x] => do pure (.vSetList (← idx 1 d) (← num x))
  | ["vcopy", d, s] => do pure (.vCopy (← idx 1 d) (← idx 1 s))
  | ["vassign", d, s] => do pure (.vAssign (← idx 1 d) (← idx 1 s))
  | ["vclear", d] => do pure (.vClear (← idx 1 d))
  | ["vseti", d, x] => do pure (.vSetInt (← idx 1 d) (← num x))
  | ["vsets", d, h] => do pure (.vSetStr (← idx 1 d) (← fromHex h))
  | ["vapp", d, h] => do pure (.vAppStr (← idx 1 d) (← fromHex h))
  | ["vpush", d, x] => do pure (.vPush (← idx 1 d) (← num x))
  | ["vswap", a, b] => do pure (.vSwap (← idx 1 a) (← idx 1 b))
  | ["xcopy", d, s] => do pure (.xCopy (← idx 2 d) (← idx 2 s))
  | ["xassign", d, s] => do pure (.xAssign (← idx 2 d) (← idx 2 s))
  | ["xclear", d] => do pure (.xClear (← idx 2 d))
  | ["xsets", d, h] => do pure (.xSetStr (← idx 2 d) (← fromHex h))
  | ["xelem", d, h] => do pure (.xElem (← idx 2 d) (← fromHex h))
  | ["pnew", d, x] => do pure (.pNew (← idx 3 d) (← num x))
  | ["pcopy", d, s] => do pure (.pCopy (← idx 3 d) (← idx 3 s))
  | ["passign", d, s] => do pure (.pAssign (← idx 3 d) (← idx 3 s))
  | ["pclear", d] => do pure (.pClear (← idx 3 d))
  | ["pswap", a, b] => do pure (.pSwap (← idx 3 a) (← idx 3 b))
  | ["praw", d, s] => do pure (.pAssign (← idx 3 d) (← idx 3 s))      -- operator=(C*) with the raw pointer of a managed object
  | ["pctor", d, s] => do pure (.pCopy (← idx 3 d) (← idx 3 s))       -- Ptr(D*) from the raw pointer of a managed object
  | ["plink", d, s] => do pure (.pLink (← idx 3 d) (← idx 3 s))
  | ["pnext", d] => do pure (.pNext (← idx 3 d))
  | ["pnextof", d, s] => do pure (.pNextOf (← idx 3 d) (← idx 3 s))
  | ["prawnext", d] => do pure (.pNext (← idx 3 d))                  -- d = d->next.obj through operator=(C*): the same steps
  | ["sprepend", d, h] => do pure (.sPrepend (← idx 0 d) (← fromHex h))
  | ["sresize", d, n] => do pure (.sResize (← idx 0 d) (← num n))
  | ["sreplace", d, a, b] => do pure (.sEdit (← idx 0 d) 0 (← num a) (← num b))
  | ["slower", d] => do pure (.sEdit (← idx 0 d) 1 0 0)
  | ["schar", d] => do pure (.sEdit (← idx 0 d) 2 0 0)
  | ["sprintf", d, x] => do pure (.sPrintf (← idx 0 d) (← num x))
  | ["vpusha", d, x] => do pure (.vPushA (← idx 1 d) (← num x))
  | ["vseta", d, x] => do pure (.vSetArr (← idx 1 d) (← num x))
  | ["vputm", d, k, x] => do pure (.vPutM (← idx 1 d) (← num k) (← num x))
  | ["vsetm", d, k, x] => do pure (.vSetMap (← idx 1 d) (← num k) (← num x))
  | _ => none

/-- the literals of `slitc` (harness: the same table) -/
def lits : List (List Nat) := [[], [97, 98], [97, 98, 99, 100]]

def upperByte (c : Nat) : Nat := if 97 ≤ c ∧ c ≤ 122 then c - 32 else c

/-- an op line is resolved to its call in the state in which the call starts (`append(const String&)` reads the bytes of its
    argument, a handle of the calling thread, at that moment) -/
def parseOp (st : St) (ws : List String) : Option NOp :=
  match ws with
  | ["slitc", d, k] => do
    let k ← num k
    if k < lits.length then pure (.flat (.sLit (← idx 0 d) (lits.getD k []))) else none
  | ["scap", d, n] => do pure (.flat (.gNew (← idx 0 d) tagStr false [] (← num n)))
  | ["slitu", d, h] => do pure (.flat (.gNew (← idx 0 d) tagStrU true (← fromHex h) 0))
  | ["sconst", d] => do
    let d ← idx 0 d
    pure (.flat (.gEdit d (constSkip st d) (viewVal st d)))
  | ["sconstm", d] => do
    let d ← idx 0 d
    pure (.flat (.gEdit d (constSkip st d) (viewVal st d)))
  | ["sdetach", d] => do pure (.flat (.sEdit (← idx 0 d) 2 0 0))
  | ["sapps", d, s] => do pure (.flat (.sAppend (← idx 0 d) (viewVal st (← idx 0 s))))
  | ["spluss", d, s] => do pure (.flat (.sAppend (← idx 0 d) (viewVal st (← idx 0 s))))
  | ["sappc", d, c] => do pure (.flat (.sAppend (← idx 0 d) [← num c]))
  | ["splusc", d, c] => do pure (.flat (.sAppend (← idx 0 d) [← num c]))
  | ["spreps", d, s] => do pure (.flat (.sPrepend (← idx 0 d) (viewVal st (← idx 0 s))))
  | ["supper", d] => do
    let d ← idx 0 d
    pure (.flat (.gEdit d false ((viewVal st d).map upperByte)))
  | ["vctors", d, h] => do pure (.flat (.gNew (← idx 1 d) tagVStr false (← fromHex h) 0))
  | ["vctorl", d, x] => do pure (.flat (.gNew (← idx 1 d) tagVList false [← num x] 0))
  | ["vctora", d, x] => do pure (.flat (.gNew (← idx 1 d) tagVArr false [← num x] 0))
  | ["vctorm", d, k, x] => do pure (.flat (.gNew (← idx 1 d) tagVMap false [← num k, ← num x] 0))
  | ["xctors", d, h] => do pure (.flat (.gNew (← idx 2 d) tagXText false (← fromHex h) 0))
  | ["xctore", d, h] => do pure (.flat (.gNew (← idx 2 d) tagXElem false (← fromHex h) 0))
  | ["vpushv", d, s] => do pure (.vPushV (← idx 1 d) (← idx 1 s))
  | ["vgetv", d, s, k] => do pure (.vGetV (← idx 1 d) (← idx 1 s) (← num k))
  | ["xaddc", d, s] => do pure (.xAddC (← idx 2 d) (← idx 2 s))
  | ["xgetc", d, s, k] => do pure (.xGetC (← idx 2 d) (← idx 2 s) (← num k))
  | ["apushv", d, s] => do pure (.aPushV (← idx 1 d) (← idx 1 s))
  | ["agetv", d, s, k] => do pure (.aGetV (← idx 1 d) (← idx 1 s) (← num k))
  | _ => (parseFlat ws).map .flat

/-! ### controlled interleaving -/

def isSync (hooks : Bool) : Act → Bool
  | .inc .. => true        -- only counted increments are scheduling points; see `syncNow`
  | .dec .. => true
  | .readRef .. => hooks
  | .write .. => hooks
  | _ => false

/-- an `inc`/`dec`/`readRef` on a slot that does not hold a counted block performs no atomic
    operation in the C++ code, a `write` that is skipped neither -/
def syncNow (hooks : Bool) (st : St) (tid : Nat) (a : Act) : Bool :=
  match a with
  | .inc _ src => (st.slots src).isBlk
  | .incE _ c k _ => (st.slots (embSlotK c k)).isBlk
  | .dec t => (st.slots t).isBlk
  | .readRef t _ => hooks && (st.slots t).isBlk
  | .write _ => hooks && isWriting st tid
  | .alloc _ tag _ _ => tag == tagObj      -- `new Obj` is followed by the atomic increment 0 -> 1 of its (still private) counter
  | _ => false

def traceTok (before after : St) (tid : Nat) (a : Act) : String :=
  let refOf (s : St) (v : Nat) : String :=
    match before.slots v with
    | .blk b => match s.heap b with | some blk => toString blk.ref | none => "?"
    | _ => "-"
  match a with
  | .inc _ src => s!"{tid}.inc.{refOf after src}"
  | .incE _ c k _ => s!"{tid}.inc.{refOf after (embSlotK c k)}"
  | .dec t => s!"{tid}.dec.{refOf after t}"
  | .readRef t _ => s!"{tid}.ref.{refOf before t}"
  | .write _ => s!"{tid}.wr"
  | .alloc .. => s!"{tid}.inc.1"
  | _ => s!"{tid}.?"

/-- make sure thread `tid` has a non-empty step list if it has work left -/
partial def refill (d : DSt) (tid : Nat) : DSt :=
  let t := d.thr.getD tid {}
  if !t.acts.isEmpty then d
  else match t.inPre with
    | some op =>
      let t' := { t with acts := postN d.st tid op, inPre := none }
      refill { d with thr := d.thr.set tid t' } tid
    | none => match t.prog with
      | [] => d
      | ws :: r =>
        match parseOp d.st ws with
        | some op =>
          let t' := { t with acts := preN d.st tid op, inPre := some op, prog := r }
          refill { d with thr := d.thr.set tid t' } tid
        | none => { d with bad := true, thr := d.thr.set tid { t with prog := [] } }

def finished (d : DSt) (tid : Nat) : Bool :=
  let d' := refill d tid
  ((d'.thr.getD tid {}).acts).isEmpty && !(d'.thr.getD tid {}).resume

/-- atomic read-modify-write operations: the thread is descheduled again right after them, so that
    the plain code that follows (`delete`, the stores of the new block, …) is a step of its own -/
def isAtomic : Act → Bool
  | .inc .. => true
  | .incE .. => true
  | .dec .. => true
  | .alloc .. => true
  | _ => false

/-- run the non-scheduling-point steps of thread tid until it reaches a scheduling point or ends -/
partial def runLocal (d : DSt) (tid : Nat) : DSt :=
  let d := refill d tid
  let t := d.thr.getD tid {}
  -- destructor cascade (the same as `runC`): a thread whose decrement reached zero adopts the handles embedded in
  -- the dying payload, deletes it and then releases each of them (every such decrement is a scheduling point)
  let (st0, acts) := match t.acts with
    | .free :: r =>
      (match dying d.st tid .free with
        | some c =>
          (match runT d.st tid (adoptAll d.st c ++ [.free]) with
            | some s1 => (s1, relEmb c (embKs d.st c) ++ r)
            | none => (d.st, t.acts))
        | none => (d.st, t.acts))
    | _ => (d.st, t.acts)
  let d := { d with st := st0 }
  match acts with
  | [] => d
  | a :: r =>
    if syncNow d.hooks d.st tid a then { d with thr := d.thr.set tid { t with acts := acts } }
    else match astep d.st tid a with
      | some s' => runLocal { d with st := s', thr := d.thr.set tid { t with acts := r } } tid
      | none => { d with bad := true, thr := d.thr.set tid { t with acts := [], prog := [], inPre := none } }

/-- one schedule entry: thread tid performs its pending scheduling-point step, then runs on -/
partial def grant (d : DSt) (tid : Nat) : DSt × String :=
  let t := d.thr.getD tid {}
  if !t.started then
    (runLocal { d with thr := d.thr.set tid { t with started := true } } tid, s!"{tid}.start")
  else if t.resume then
    (runLocal { d with thr := d.thr.set tid { t with resume := false } } tid, s!"{tid}.go")
  else
    let d := refill d tid
    let t := d.thr.getD tid {}
    match t.acts with
    | [] => (d, s!"{tid}.idle")
    | a :: r =>
      match astep d.st tid a with
      | some s' =>
        let tok := traceTok d.st s' tid a
        if isAtomic a then
          ({ d with st := s', thr := d.thr.set tid { t with acts := r, resume := true } }, tok)
        else
          (runLocal { d with st := s', thr := d.thr.set tid { t with acts := r } } tid, tok)
      | none => ({ d with bad := true }, s!"{tid}.bad")

def runSchedule (d : DSt) (sched : List Nat) : DSt × List String :=
  let (d, toks) := sched.foldl (fun (acc : DSt × List String) tid =>
      let (d', tok) := grant acc.1 tid
      (d', tok :: acc.2)) (d, [])
  (d, toks.reverse)

/-- threads not finished at the end of the schedule run to completion in thread order -/
partial def drain (d : DSt) (tid : Nat) (toks : List String) : DSt × List String :=
  if tid ≥ nThreads then (d, toks)
  else if finished d tid && (d.thr.getD tid {}).started then drain d (tid + 1) toks
  else if (d.thr.getD tid {}).prog.isEmpty && (d.thr.getD tid {}).acts.isEmpty && (d.thr.getD tid {}).inPre.isNone
      && !(d.thr.getD tid {}).resume then
    drain d (tid + 1) toks
  else
    let (d', tok) := grant d tid
    if d'.bad then (d', toks ++ [tok]) else drain d' tid (toks ++ [tok])

/-- hand slot v to thread tid (a step of its current owner) -/
def giveTo (s : St) (v tid : Nat) : St :=
  match astep s (s.owner v) (.give v tid) with
  | some s' => s'
  | none => s

/-- static C++ typing of the harness: P0,P1 are `Ptr<Node>`, P2,P3 are `Ptr<Leaf>` (Leaf derives from Node):
    a Leaf handle takes only Leaf handles, swap needs equal types; `resize` is exercised for shrinking only -/
def wellTyped (st : St) (ws : List String) : Bool :=
  let n (t : String) : Nat := t.toNat?.getD 0
  match ws with
  | [op, d, s] =>
    if op == "pcopy" || op == "passign" || op == "praw" || op == "pctor" then n d < 2 || n s ≥ 2
    else if op == "pswap" then (n d < 2) == (n s < 2)
    else if op == "pnextof" then n d < 2
    else if op == "sresize" then n s ≤ (viewVal st (n d)).length
    else true
  | [op, d] => if op == "pnext" || op == "prawnext" then n d < 2 else true
  | _ => true

def stepLine (d : DSt) (ws : List String) : DSt × String :=
  match ws with
  | ["reset"] =>
    -- the capacity tables given on the command line are a parameter of the whole run
    let d0 := { init0 with st := { init0.st with capTab := d.st.capTab, growTab := d.st.growTab,
                                                   assignEmptyStatic := d.st.assignEmptyStatic, assignSameSkip := d.st.assignSameSkip } }
    (d0, obs d0)
  | ["end"] =>
    let s0 := (List.range nSlots).foldl (fun s v => giveTo s v 0) d.st
    let fin := (List.range nVars).foldl (fun (acc : Option St) v =>
      match acc with
      | some s => runC (cascFuel s (relP s 0 v relFuel)) s 0 (relP s 0 v relFuel)
      | none => none) (some s0)
    match fin with
    | some s' => let d' := { d with st := s' }; (d', s!"end live={liveCount s'} bad={s'.viol}")
    | none => (d, "bad-op")
  | ["hooks", h] => ({ d with hooks := h == "1" }, "ok")
  | ["give", v, tid] =>
    match v.toNat?, tid.toNat? with
    | some v, some tid =>
      if v < nVars ∧ tid < nThreads then
        -- the variable and the scratch slots of that thread
        let s' := giveTo (giveTo (giveTo d.st v tid) (tmpU tid) tid) (tmpT tid) tid
        ({ d with st := s' }, "ok")
      else (d, "bad-op")
    | _, _ => (d, "bad-op")
  | "prog" :: tid :: rest =>
    match tid.toNat?, (if wellTyped d.st rest then parseOp d.st rest else none) with
    | some tid, some _ =>
      if 0 < tid ∧ tid < nThreads then
        let t := d.thr.getD tid {}
        ({ d with thr := d.thr.set tid { t with prog := t.prog ++ [rest] } }, "ok")
      else (d, "bad-op")
    | _, _ => (d, "bad-op")
  | "run" :: sched =>
    match sched.mapM (fun t => t.toNat?) with
    | some sc =>
      if sc.all (fun t => 0 < t ∧ t < nThreads) then
        let (d1, toks) := runSchedule d sc
        let (d2, toks) := drain d1 1 toks
        if d2.bad then (d2, "bad-op")
        else
          let d2 := { d2 with st := compact d2.st }
          let d3 := { d2 with seen := scanSeen d2.st d2.seen, thr := List.replicate nThreads {} }
          (d3, " ".intercalate toks ++ " # " ++ obs d3)
      else (d, "bad-op")
    | none => (d, "bad-op")
  | _ =>
    match (if wellTyped d.st ws then parseOp d.st ws else none) with
    | none => (d, "bad-op")
    | some op =>
      match apiStepN d.st 0 op with
      | some s' =>
        let s' := compact s'
        let d' := { d with st := s', seen := scanSeen s' d.seen }
        (d', obs d')
      | none => (d, "bad-op")

end Nstd.Rc

/-- command line: up to four comma-separated capacity tables (allocation sites 0..3, index = requested
    minimum capacity), measured by `harness --probe` on the real String class -/
def main (args : List String) : IO Unit :=
  let tabs : List (List Nat) := (args.take 4).map (fun a => (a.splitOn ",").filterMap (fun t => t.toNat?))
  -- 5th argument: growth table (rows = old capacity, `;`-separated), 6th: two digits assignEmptyStatic, assignSameSkip
  let grow : List (List Nat) := ((args.getD 4 "").splitOn ";").map (fun r => (r.splitOn ",").filterMap (fun t => t.toNat?))
  let flags : List Char := (args.getD 5 "00").toList
  let capTab : Nat → Nat → Nat := fun site len =>
    match (tabs.getD site [])[len]? with
    | some c => c
    | none => len ||| 3
  let growTab : Nat → Nat → Nat := fun old len =>
    match (grow.getD old [])[len]? with
    | some c => c
    | none => capTab 3 len
  let es : Bool := flags.getD 0 '0' == '1'
  let ss : Bool := flags.getD 1 '0' == '1'
  let st0 : Nstd.Rc.St := { Nstd.Rc.init0.st with capTab := capTab, growTab := growTab, assignEmptyStatic := es, assignSameSkip := ss }
  let d0 : Nstd.Rc.DSt := { Nstd.Rc.init0 with st := st0 }
  Nstd.Common.ioLoop d0 Nstd.Rc.stepLine
