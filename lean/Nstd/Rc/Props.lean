import Nstd.Rc.Lemmas
import Nstd.Rc.Total
import Nstd.Rc.Stale
import Nstd.Rc.Frame
import Nstd.Rc.PtrTotal
import Nstd.Rc.NestedLemmas
import Nstd.Rc.PtrStale
import Nstd.Rc.Leak
/-
  Property C09: shared payloads are released exactly once, after their last handle.

  `Reach n s`: s is reachable from the initial state with n handle slots by SOME interleaving
  of atomic steps of ANY number of threads running ANY programs (a step is possible only on
  slots the thread owns; see `astep`).  Ghost fields: `freed b` = how often block b was
  released, `viol` = number of steps so far that accessed a released block, released a block
  twice or wrote a block in place while another handle existed.
-/
namespace Nstd.Rc

/-
  Handles nested inside payloads (the `next` pointer of a counted object, the Variants of a list payload, the children
  of an Xml element): payload block c carries a FAMILY of embedded handle slots `embSlotK c k`, k = 0, 1, 2, …
  (`embSlot c` = slot 0).  `Reach` contains, besides the steps of a thread on its own slots, the steps `incE` (a thread
  holding c copies embedded handle k: shared payloads are read by every holder), `takeE`/`putE` (only the thread
  holding the ONLY handle of c replaces an embedded handle), `takeF` / `adoptF` (the thread whose decrement of c
  reached zero takes the embedded handles out / becomes their owner before it deletes c: the destructor, which then
  releases each of them).  `handles s b` counts ALL slots, top-level and embedded, so `mt_safe` (counter = number of
  handles, released once, never while referenced, writes only through the sole handle) holds for programs with any
  number of nested handles per payload; `mt_safe_nested`, `mt_embedded_write_sole`, `mt_embedded_take_on_release`,
  `mt_embedded_stable`, `mt_embedded_owner_stable` state the nested part explicitly for every slot of the family.
  The API calls that create, copy, read and release such payloads (`NOp`, Nested.lean: list payloads holding shared
  Variants, Xml elements with children, executed with the destructor cascade `runC`) are covered by the `nested_*`
  theorems below.

  Round 7: the constructors and guarded edits `gNew` (`String(usize capacity)`, attach to unterminated memory, the box constructors
  `Variant(const T&)` / `Xml::Variant(const T&)`) and `gEdit` (`toUpperCase`, `operator const char*()`) are `ApiOp` calls with `flatOp = true`:
  every theorem over `ApiOp` / `NOp` histories quantifies over them (totality, enabledness under interleaving, `no_use_after_drop`,
  `nested_*`, `mt_calls_admitted`); the bodies in which only the ORDER of acquire and release matters are no longer tied by a
  hand translation alone: see PropsTie.lean (`tie_*`: interpretation of the bodies translated from the current headers = `pre`).

  OPEN (what is still not covered): in-place writes THROUGH an embedded handle and the cross-kind calls `Variant = String variable` /
  `String = variant.toString()`: MODELLED and under the theorems (`vSetS`, `sFromV`, `vAppS` on boxes of kind `tagVStrN`, see below) but
  NOT TIED to the code: the harness still treats the String inside a box as an internal allocation (`curKind`), so no op line drives these
  calls, and the string boxes of the other calls (`vSetStr`, `vAppStr`, `xSetStr`) keep their flat content.  Missing for the tie: (i) harness:
  String data blocks reached through a box are payloads (counter offset of String under `curKind` 1/2), printed as `>b<pid>` of the box;
  (ii) the flat string boxes replaced by `tagVStrN` in `vSetStr` / `vAppStr` / `vCopy` / Xml text (every string-box call then has the two
  reads of `vAppS`); (iii) the plain read of the INNER counter is decided in the state after the read of the box counter (`innerSole` in
  `postN`): exact single-threaded, but under interleaving another thread may release its String handle in between (the model then clones where
  the code writes in place: safe, but the traces differ) — needs a second read phase in `CallOk` (`pre2`/`post2`) for the drivers; boxed
  values of map payloads and Xml attributes (same container code, not driven; Array payloads are: `aPushV`, `aGetV`);
  totality of the nested calls
  (`apiRunN … = some s` is a hypothesis: fuel of the cascade, fewer than `maxBlocks` allocations, at most `famK` boxed
  elements per payload in the drivers' layout) is validated by the correspondence run and the examples only; cascade
  completeness (`nested_no_leak`, `mt_no_leak_quiescent`) excludes `d->next = s` (`pLink`: on a SHARED object it stores into
  an embedded slot without holding the only handle — a caller-side data race in the multi-threaded reading, single-threaded
  it needs a frame argument that is not done).
-/

/-- multi-threaded safety: in every reachable state, for every schedule and all programs -/
theorem mt_safe {n : Nat} {s : St} (h : Reach n s) :
    -- the counter equals the number of handles (slots of all threads, including the scratch slots
    -- that hold increments "in flight" and temporaries)
    (∀ b blk, s.heap b = some blk → blk.ref = handles s b)
    -- no step so far touched a released block, released twice, or wrote a shared block in place
    ∧ s.viol = 0
    -- each block is released at most once; released <-> gone
    ∧ (∀ b, s.freed b ≤ 1)
    ∧ (∀ b, b < s.next → (s.freed b = 1 ↔ s.heap b = none))
    -- never released while a handle refers to it
    ∧ (∀ v b, v < s.n → s.slots v = .blk b → s.heap b ≠ none ∧ s.freed b = 0)
    -- a live block without handles is being released by the one thread whose decrement reached zero
    ∧ (∀ b blk, s.heap b = some blk → handles s b = 0 →
         ∃ tid, s.pc tid = .freeing b ∧ ∀ tid', s.pc tid' = .freeing b → tid' = tid)
    -- a thread that is about to write in place holds the only handle
    ∧ (∀ tid t b, s.pc tid = .writing t b → handles s b = 1 ∧ s.slots t = .blk b ∧ s.owner t = tid) := by
  have inv := inv_reach h
  refine ⟨inv.cnt, inv.noviol, inv.freed_le_one, ?_, ?_, ?_, ?_⟩
  · intro b hb
    have := inv.freedOnce b hb
    by_cases y : s.heap b = none <;> simp only [y, if_true, if_false] at this <;> simp [y, this]
  · intro v b hv hs
    obtain ⟨blk, hblk⟩ := inv.live v b hv hs
    refine ⟨by rw [hblk]; simp, ?_⟩
    by_cases x : b < s.next
    · have := inv.freedOnce b x
      simpa [hblk] using this
    · exact (inv.fresh b (by omega)).2
  · intro b blk hb hz
    have hr : blk.ref = 0 := by rw [inv.cnt b blk hb]; exact hz
    obtain ⟨tid, hf⟩ := inv.zero b blk hb hr
    exact ⟨tid, hf, (inv.freeing tid b hf).2⟩
  · intro tid t b hw
    obtain ⟨_, a2, a3, blk, a4, a5⟩ := inv.writing tid t b hw
    refine ⟨?_, a3, a2⟩
    rw [← inv.cnt b blk a4]; exact a5

/-- the counter equation with the in-flight references made explicit, for the slot layout of the
    drivers (16 variables, then two scratch slots per thread): counter = handles in variables +
    references held in scratch slots (an increment already performed whose pointer is not yet stored
    in its destination, or a named temporary of the running call) -/
theorem mt_ref_inflight {s : St} (h : Reach nSlots s) (b : Nat) (blk : Block) (hb : s.heap b = some blk) :
    blk.ref = handlesOf nVars s.slots b
      + (List.range' nVars (2 * nThreads)).countP (fun v => s.slots v == Handle.blk b) := by
  have hc := (inv_reach h).cnt b blk hb
  have hn := reach_n h
  have split : List.range nSlots = List.range nVars ++ List.range' nVars (2 * nThreads) := by decide
  simp only [handles, handlesOf, hn, split, List.countP_append] at hc
  simpa [handlesOf] using hc

/-- nested handles: the counter of a block = handles in top-level slots (variables, scratch) + handles
    embedded in payloads, for every layout in which the first `a` slots are top-level -/
theorem mt_safe_nested {n : Nat} {s : St} (h : Reach n s) (a : Nat) (ha : a ≤ n) (b : Nat) (blk : Block)
    (hb : s.heap b = some blk) :
    blk.ref = handlesOf a s.slots b + (List.range' a (n - a)).countP (fun v => s.slots v == Handle.blk b) := by
  have hc := (inv_reach h).cnt b blk hb
  have hn := reach_n h
  simp only [handles, hn] at hc
  rw [hc]; exact handlesOf_split n a s.slots b ha

/-- an embedded handle (ANY slot k of the family of block c) is replaced only by the thread that holds the only
    handle of the enclosing block -/
theorem mt_embedded_write_sole {n : Nat} {s s' : St} {tid t c k v : Nat} (h : Reach n s)
    (hs : astep s tid (.takeE t c k v) = some s' ∨ astep s tid (.putE c k t v) = some s') :
    handles s c = 1 ∧ s.slots v = .blk c ∧ s.owner v = tid := by
  have inv := inv_reach h
  have key : soleVia s tid v c → handles s c = 1 ∧ s.slots v = .blk c ∧ s.owner v = tid := by
    rintro ⟨_, ho, hsl, blk, hb, hr⟩
    exact ⟨by rw [← inv.cnt c blk hb]; exact hr, hsl, ho⟩
  rcases hs with hs | hs <;> simp only [astep] at hs <;> split at hs
  · rename_i hc; exact key hc.2.2.2.2.2.2.2.1
  · cases hs
  · rename_i hc; exact key hc.2.2.2.2.2.2.2.1
  · cases hs

/-- the destructor steps: an embedded handle (any slot k of the family) is taken out of / adopted from a block that
    has no handle left and that this thread is about to delete (nobody else can reach it) -/
theorem mt_embedded_take_on_release {n : Nat} {s s' : St} {tid t c k : Nat} (h : Reach n s)
    (hs : astep s tid (.takeF t c k) = some s' ∨ astep s tid (.adoptF c k) = some s') :
    handles s c = 0 ∧ (∃ blk, s.heap c = some blk) ∧ ∀ tid', s.pc tid' = .freeing c → tid' = tid := by
  have inv := inv_reach h
  have key : s.pc tid = .freeing c →
      handles s c = 0 ∧ (∃ blk, s.heap c = some blk) ∧ ∀ tid', s.pc tid' = .freeing c → tid' = tid := by
    intro hp
    obtain ⟨⟨blk, hb, hz⟩, hu⟩ := inv.freeing tid c hp
    exact ⟨by rw [← inv.cnt c blk hb]; exact hz, ⟨blk, hb⟩, hu⟩
  rcases hs with hs | hs <;> simp only [astep] at hs <;> split at hs
  · rename_i hc; exact key hc.2.2.2.2.1
  · cases hs
  · rename_i hc; exact key hc.2.1
  · cases hs

/-- a shared payload is read-only, with ALL its embedded handles: while thread `tid` holds block c through its own slot
    v, no step of another thread (other than the owner of the embedded slot itself) changes the handle in any slot k
    of the family embedded in c -/
theorem mt_embedded_stable {n : Nat} {s s' : St} {tid tid2 v c k : Nat} {a : Act} (h : Reach n s)
    (hv : v < s.n) (ho : s.owner v = tid) (hsl : s.slots v = .blk c) (hcb : c < maxBlocks)
    (hs : astep s tid2 a = some s') (hne : tid2 ≠ tid) (hown : s.owner (embSlotK c k) ≠ tid2) :
    s'.slots (embSlotK c k) = s.slots (embSlotK c k) := by
  have inv := inv_reach h
  rcases astep_slots_other hs hown with e | ⟨t, c', k', v', ha, hx⟩ | ⟨t, c', k', ha, hx⟩
  · exact e
  · -- takeE / putE by tid2 needs the only handle of c, but v (of another thread) designates c as well
    have hc'b : c' < maxBlocks := by
      rcases ha with ha | ha <;> subst ha <;> simp only [astep] at hs <;> split at hs <;>
        first | (cases hs; done) | (rename_i hc; exact hc.2.2.2.2.2.2.2.2)
    have hc' : c' = c := (embSlotK_inj hcb hc'b hx).1.symm
    subst hc'
    have sole : handles s c' = 1 ∧ s.slots v' = .blk c' ∧ s.owner v' = tid2 := by
      rcases ha with ha | ha
      · subst ha; exact mt_embedded_write_sole h (Or.inl hs)
      · subst ha; exact mt_embedded_write_sole h (Or.inr hs)
    have hv' : v' < s.n := by
      rcases ha with ha | ha <;> subst ha <;> simp only [astep] at hs <;> split at hs <;>
        first | (cases hs; done) | (rename_i hc; exact hc.2.2.2.2.2.2.2.1.1)
    have hvv : v ≠ v' := by intro e; subst e; rw [ho] at sole; exact hne sole.2.2.symm
    have := sole_handle s.n s.slots v' v c' hv' hv hvv sole.2.1 hsl
    have h1 := sole.1
    simp only [handles] at h1; omega
  · -- takeF by tid2 needs c without handles
    subst ha
    have hc'b : c' < maxBlocks := by
      simp only [astep] at hs; split at hs <;> first | (cases hs; done) | (rename_i hc; exact hc.2.2.2.2.2.2.2)
    have hc' : c' = c := (embSlotK_inj hcb hc'b hx).1.symm
    subst hc'
    have z := (mt_embedded_take_on_release h (Or.inl hs)).1
    have := handles_pos s.n s.slots v c' hv hsl
    simp only [handles] at z; omega

/-- the handles embedded in a dying payload change owner only towards the thread that is releasing that payload; every
    other step leaves the owner of every embedded slot alone, except the explicit hand-over `give` by the owner -/
theorem mt_embedded_owner_stable {n : Nat} {s s' : St} {tid x : Nat} {a : Act} (_h : Reach n s)
    (hs : astep s tid a = some s') (hx : s.owner x ≠ tid) :
    s'.owner x = s.owner x ∨ ∃ c k, a = .adoptF c k ∧ x = embSlotK c k ∧ s.pc tid = .freeing c := by
  cases a
  case give v t' =>
    simp only [astep] at hs
    split at hs
    case isFalse => cases hs
    case isTrue hc =>
      cases hs; left
      have : x ≠ v := by intro e; subst e; exact hx hc.2.1
      exact upd_other _ _ _ _ this
  case adoptF c k =>
    simp only [astep] at hs
    split at hs
    case isFalse => cases hs
    case isTrue hc =>
      cases hs
      by_cases e : x = embSlotK c k
      · right; exact ⟨c, k, rfl, e, hc.2.1⟩
      · left; exact upd_other _ _ _ _ e
  all_goals (
    left
    simp only [astep] at hs <;> (repeat' split at hs) <;>
    first
    | (cases hs; done)
    | (cases hs; rfl)
    | (cases hs; simp only [doInc]; (repeat' split) <;> rfl))

/-- an embedded handle is only ever accessed (copied, replaced, taken out by the destructor) inside a payload that is
    live and unreleased: no step reads a handle stored in a released block (the use-after-free of D37 is not a step) -/
theorem mt_embedded_access_live {n : Nat} {s s' : St} {tid t c k v : Nat} (h : Reach n s)
    (hs : astep s tid (.incE t c k v) = some s' ∨ astep s tid (.takeE t c k v) = some s' ∨
          astep s tid (.putE c k t v) = some s' ∨ astep s tid (.takeF t c k) = some s' ∨
          astep s tid (.adoptF c k) = some s') :
    s.heap c ≠ none ∧ s.freed c = 0 := by
  have inv := inv_reach h
  have viaSlot : ∀ v, v < s.n → s.slots v = .blk c → s.heap c ≠ none ∧ s.freed c = 0 :=
    fun v hv hsl => (mt_safe h).2.2.2.2.1 v c hv hsl
  have viaFreeing : s.pc tid = .freeing c → s.heap c ≠ none ∧ s.freed c = 0 := by
    intro hp
    obtain ⟨⟨blk, hb, _⟩, _⟩ := inv.freeing tid c hp
    refine ⟨by rw [hb]; simp, ?_⟩
    by_cases x : c < s.next
    · have := inv.freedOnce c x
      simpa [hb] using this
    · exact (inv.fresh c (by omega)).2
  rcases hs with hs | hs | hs | hs | hs <;> simp only [astep] at hs <;> split at hs <;>
    first
    | (cases hs; done)
    | (rename_i hc; exact viaSlot v hc.2.2.2.2.2.2.1 hc.2.2.2.2.2.2.2.2.1)
    | (rename_i hc; exact viaSlot v hc.2.2.2.2.2.2.2.1.1 hc.2.2.2.2.2.2.2.1.2.2.1)
    | (rename_i hc; exact viaFreeing hc.2.2.2.2.1)
    | (rename_i hc; exact viaFreeing hc.2.1)

/-- the NEXT step of any thread from any reachable state is safe as well: it does not touch a
    released block, release twice, or write in place a block that has another handle -/
theorem mt_step_safe {n : Nat} {s s' : St} {tid : Nat} {a : Act} (h : Reach n s)
    (hs : astep s tid a = some s') : s'.viol = 0 :=
  (inv_reach (Reach.step h hs)).noviol

/-- the in-place write step itself: the block it modifies is live and has exactly one handle,
    which is a slot of the writing thread -/
theorem mt_write_sole {n : Nat} {s s' : St} {tid t b : Nat} {val : List Nat} (h : Reach n s)
    (_hs : astep s tid (.write val) = some s') (hw : s.pc tid = .writing t b) :
    handles s b = 1 ∧ s.slots t = .blk b ∧ s.owner t = tid ∧ t < s.n ∧ ∃ blk, s.heap b = some blk := by
  have inv := inv_reach h
  obtain ⟨a1, a2, a3, blk, a4, a5⟩ := inv.writing tid t b hw
  exact ⟨by rw [← inv.cnt b blk a4]; exact a5, a3, a2, a1, blk, a4⟩

/-- never modified in place while another handle refers to it: a step of ANY thread leaves the payload
    (kind and content) seen through every handle `v` that the step does not reassign unchanged -- the
    only exception is the in-place write of the thread that owns `v`, through `v` itself (and then
    `v` is the only handle of that block, `mt_write_sole`).  In particular no step of another
    thread ever changes what a handle designates. -/
theorem mt_view_stable {n : Nat} {s s' : St} {tid : Nat} {a : Act} {v : Nat} (h : Reach n s)
    (hs : astep s tid a = some s') (hv : v < s.n) (hsame : s'.slots v = s.slots v)
    (hnw : ∀ t b, s.pc tid = .writing t b → t ≠ v) : view s' v = view s v := by
  have inv := inv_reach h
  simp only [view, hsame]
  cases hsl : s.slots v with
  | none => rfl
  | inl tag val => rfl
  | blk b =>
    obtain ⟨blk, hb⟩ := inv.live v b hv hsl
    obtain ⟨blk', hb', e1, e2, _⟩ := content_stable inv hs hv hsl hb hnw
    simp only [hb, hb', e1, e2]

/-- the same for explicit schedules: a schedule is a list of (thread, step) -/
theorem mt_sched_safe {n : Nat} (sched : List (Nat × Act)) {s : St} (h : runSched (init n) sched = some s) :
    s.viol = 0 ∧ (∀ b, s.freed b ≤ 1) ∧ (∀ b blk, s.heap b = some blk → blk.ref = handles s b) := by
  have inv := inv_reach (reach_runSched sched Reach.init h)
  exact ⟨inv.noviol, inv.freed_le_one, inv.cnt⟩


/-! ### single-threaded: every history of API calls of the four handle classes
    (`apiRun (init n) tid ops = some s`: the calls `ops` were executed one after the other by one
    thread; `none` only if a call addresses a slot outside `0..n-1`/not owned by the thread) -/

/-- the state between two API calls: nothing is in flight -/
theorem st_quiet {n tid : Nat} {ops : List ApiOp} {s : St} (h : apiRun (init n) tid ops = some s) :
    ∀ t, s.pc t = .idle :=
  quiet_apiRun ops (fun _ => rfl) h

/-- after every history: the counter of every live block is the number of handles referring to it
    (and is positive: no live block without a handle, i.e. no leak) -/
theorem ref_counts_handles {n tid : Nat} {ops : List ApiOp} {s : St} (h : apiRun (init n) tid ops = some s) :
    ∀ b blk, s.heap b = some blk → blk.ref = handles s b ∧ 0 < blk.ref := by
  have inv := inv_reach (reach_apiRun ops Reach.init h)
  intro b blk hb
  refine ⟨inv.cnt b blk hb, ?_⟩
  by_cases z : blk.ref = 0
  · obtain ⟨t, hf⟩ := inv.zero b blk hb z
    rw [st_quiet h t] at hf; cases hf
  · omega

/-- after every history, every block ever allocated is either live, never released and referred to
    by at least one handle, or released exactly once and referred to by no handle:
    released exactly when the last handle went, never twice, never while referenced -/
theorem freed_once_after_last {n tid : Nat} {ops : List ApiOp} {s : St} (h : apiRun (init n) tid ops = some s) :
    ∀ b, b < s.next →
      (s.freed b = 0 ∧ s.heap b ≠ none ∧ 1 ≤ handles s b) ∨ (s.freed b = 1 ∧ s.heap b = none ∧ handles s b = 0) := by
  have inv := inv_reach (reach_apiRun ops Reach.init h)
  intro b hb
  have hf := inv.freedOnce b hb
  cases hh : s.heap b with
  | none =>
    right
    simp only [hh, if_true] at hf
    refine ⟨hf, rfl, ?_⟩
    apply handles_zero
    intro v hv e
    obtain ⟨blk, hblk⟩ := inv.live v b hv e
    rw [hh] at hblk; cases hblk
  | some blk =>
    left
    simp only [hh, reduceCtorEq, if_false] at hf
    obtain ⟨h1, h2⟩ := ref_counts_handles h b blk hh
    exact ⟨hf, by simp, by omega⟩

/-- after every history no in-place write has hit a block that another handle referred to, no
    released block was accessed and nothing was released twice (ghost counter of such events) -/
theorem no_inplace_write_while_shared {n tid : Nat} {ops : List ApiOp} {s : St}
    (h : apiRun (init n) tid ops = some s) : s.viol = 0 :=
  (inv_reach (reach_apiRun ops Reach.init h)).noviol

/-- … and the write steps inside the calls: whenever a call of a history is at its in-place write,
    the written block has exactly one handle (stated for all reachable states in `mt_write_sole`;
    here for the states inside single-threaded histories) -/
theorem st_write_sole {n tid : Nat} {ops : List ApiOp} {s s1 s2 : St} {acts : List Act} {t b : Nat} {val : List Nat}
    (h : apiRun (init n) tid ops = some s) (h1 : runT s tid acts = some s1)
    (hw : s1.pc tid = .writing t b) (h2 : astep s1 tid (.write val) = some s2) :
    handles s1 b = 1 ∧ s1.slots t = .blk b := by
  have r := reach_runT acts (reach_apiRun ops Reach.init h) h1
  obtain ⟨a, b', _⟩ := mt_write_sole r h2 hw
  exact ⟨a, b'⟩

/-! ### single-threaded, payloads with several embedded handles: every history of `NOp` calls
    (all calls above + `V[d].toList().append(V[s])`, `V[d] = V[s].toList()[k]`, `X[d].toElement().content.append(X[s])`,
    `X[d] = k-th child of X[s]`), executed with the destructor cascade -/

/-- the state between two calls: nothing is in flight (every cascade has run to its end) -/
theorem nested_st_quiet {n tid : Nat} {ops : List NOp} {s : St} (h : apiRunN (init n) tid ops = some s) :
    ∀ t, s.pc t = .idle :=
  quiet_apiRunN ops (fun _ => rfl) h

/-- the counter of every live block is the number of handles referring to it — variables, temporaries and the handles
    embedded in ANY slot of ANY payload — and is positive (no leak of a live block) -/
theorem nested_ref_counts_handles {n tid : Nat} {ops : List NOp} {s : St} (h : apiRunN (init n) tid ops = some s) :
    ∀ b blk, s.heap b = some blk → blk.ref = handles s b ∧ 0 < blk.ref := by
  have inv := inv_reach (reach_apiRunN ops Reach.init h)
  intro b blk hb
  refine ⟨inv.cnt b blk hb, ?_⟩
  by_cases z : blk.ref = 0
  · obtain ⟨t, hf⟩ := inv.zero b blk hb z
    rw [nested_st_quiet h t] at hf; cases hf
  · omega

/-- … split into top-level and embedded handles, for the slot layout of the drivers -/
theorem nested_ref_split {ops : List NOp} {s : St} (h : apiRunN (init nTotal) 0 ops = some s) (b : Nat) (blk : Block)
    (hb : s.heap b = some blk) :
    blk.ref = handlesOf embBase s.slots b
      + (List.range' embBase (maxBlocks * famK)).countP (fun v => s.slots v == Handle.blk b) := by
  have r := reach_apiRunN ops Reach.init h
  have := mt_safe_nested r embBase (by decide) b blk hb
  simpa [nTotal] using this

/-- every block ever allocated is either live, never released and referred to by at least one handle, or released
    exactly once and referred to by no handle (top-level or embedded): an inner payload is released exactly when its
    last handle went — with the last outer handle if that held the last reference — never twice, never while referenced -/
theorem nested_freed_once_after_last {n tid : Nat} {ops : List NOp} {s : St} (h : apiRunN (init n) tid ops = some s) :
    ∀ b, b < s.next →
      (s.freed b = 0 ∧ s.heap b ≠ none ∧ 1 ≤ handles s b) ∨ (s.freed b = 1 ∧ s.heap b = none ∧ handles s b = 0) := by
  have inv := inv_reach (reach_apiRunN ops Reach.init h)
  intro b hb
  have hf := inv.freedOnce b hb
  cases hh : s.heap b with
  | none =>
    right
    simp only [hh, if_true] at hf
    refine ⟨hf, rfl, ?_⟩
    apply handles_zero
    intro v hv e
    obtain ⟨blk, hblk⟩ := inv.live v b hv e
    rw [hh] at hblk; cases hblk
  | some blk =>
    left
    simp only [hh, reduceCtorEq, if_false] at hf
    obtain ⟨h1, h2⟩ := nested_ref_counts_handles h b blk hh
    exact ⟨hf, by simp, by omega⟩

/-- no in-place write hit a block that another handle (top-level or embedded) referred to, no released block was
    accessed, nothing was released twice -/
theorem nested_no_inplace_write_while_shared {n tid : Nat} {ops : List NOp} {s : St}
    (h : apiRunN (init n) tid ops = some s) : s.viol = 0 :=
  (inv_reach (reach_apiRunN ops Reach.init h)).noviol

/-- an embedded handle is stored into / removed from a container payload only while the caller holds its only handle:
    the states inside the calls are reachable, so `mt_embedded_write_sole` applies to every `takeE` / `putE` they perform -/
theorem nested_states_reachable {n tid : Nat} {ops : List NOp} {s s1 : St} {acts : List Act} {fuel : Nat}
    (h : apiRunN (init n) tid ops = some s) (h1 : runC fuel s tid acts = some s1) : Reach n s1 :=
  reach_runC _ _ (reach_apiRunN ops Reach.init h) h1

/-- cascade completeness, no leak through nesting: after every history of calls on the 16 variables (all calls of
    Model.lean / Nested.lean except `d->next = s`, see `idxOkN`) no handle is left inside a released block — the release of
    the last handle of a container has released every handle embedded in it —, no live block is without a handle (an inner
    payload whose count reached zero is itself released), hence every counted handle sits in a variable / temporary or
    inside a LIVE payload -/
theorem nested_no_leak {n : Nat} {ops : List NOp} {s : St} (hi : ∀ op, op ∈ ops → idxOkN op)
    (h : apiRunN (init n) 0 ops = some s) :
    (∀ c k, c < maxBlocks → embSlotK c k < s.n → s.heap c = none → (s.slots (embSlotK c k)).isBlk = false)
    ∧ (∀ b blk, s.heap b = some blk → 0 < handles s b)
    ∧ (∀ v b, v < s.n → s.slots v = .blk b → v < embBase ∨ s.heap (enclOf v) ≠ none) := by
  have no := apiRunN_no_orphan ops Reach.init (by decide) hi (init_no_orphan n) h
  refine ⟨?_, ?_, ?_⟩
  · intro c k hc hk hd
    cases hb : (s.slots (embSlotK c k)).isBlk with
    | false => rfl
    | true =>
      exfalso
      refine no (embSlotK c k) ⟨by simp only [embSlotK]; omega, hk, hb, ?_⟩
      rw [enclOf_embSlotK hc]; exact hd
  · intro b blk hb
    obtain ⟨h1, h2⟩ := nested_ref_counts_handles h b blk hb
    omega
  · intro v b hv hsl
    by_cases x : v < embBase
    · left; exact x
    · right
      intro hd
      exact no v ⟨by omega, hv, by rw [hsl]; rfl, hd⟩

/-- the same for ANY number of threads under ANY interleaving (`SReach`: every thread runs step lists that receive
    handles only into its top-level slots — all calls except `d->next = s` —, each step with the destructor cascade):
    in every state of the interleaved system every handle left in a released block has its decrement pending in the step
    list of some thread (the one that adopted it) … -/
theorem mt_orphans_pending {n : Nat} {S : Sys} (h : SReach n S) (e : Nat) (he : embBase ≤ e) (hn : e < S.st.n)
    (hb : (S.st.slots e).isBlk = true) (hd : S.st.heap (enclOf e) = none) : ∃ t, Act.dec e ∈ S.pend t :=
  (sreach_inv h).2.2 e ⟨he, hn, hb, hd⟩

/-- … so whenever no thread is inside a call, no released block contains a handle; the states of the interleaved system
    are reachable states of the step system, so `mt_safe` etc. hold in them as well -/
theorem mt_no_leak_quiescent {n : Nat} {S : Sys} (h : SReach n S) (hq : ∀ t, S.pend t = []) :
    Reach n S.st
    ∧ (∀ c k, c < maxBlocks → embSlotK c k < S.st.n → S.st.heap c = none → (S.st.slots (embSlotK c k)).isBlk = false)
    ∧ (∀ v b, v < S.st.n → S.st.slots v = .blk b → v < embBase ∨ S.st.heap (enclOf v) ≠ none) := by
  obtain ⟨r, _, p⟩ := sreach_inv h
  have no : ∀ e, ¬ Orphan S.st e := by
    intro e ho
    obtain ⟨t, ht⟩ := p e ho
    rw [hq t] at ht; cases ht
  refine ⟨r, ?_, ?_⟩
  · intro c k hc hk hd
    cases hb : (S.st.slots (embSlotK c k)).isBlk with
    | false => rfl
    | true =>
      exfalso
      refine no (embSlotK c k) ⟨by simp only [embSlotK]; omega, hk, hb, ?_⟩
      rw [enclOf_embSlotK hc]; exact hd
  · intro v b hv hsl
    by_cases x : v < embBase
    · left; exact x
    · right
      intro hd
      exact no v ⟨by omega, hv, by rw [hsl]; rfl, hd⟩

/-- every call of the model — all of Model.lean / Nested.lean including the round-7 constructors and guarded edits (`gNew`, `gEdit`), except `d->next = s` — can be started by any thread of the interleaved system `SReach`
    (its `pre` and `post` lists receive handles only into top-level slots), so `mt_orphans_pending`, `mt_no_leak_quiescent`
    and, through `Reach`, `mt_safe` … quantify over programs made of these calls under every schedule -/
theorem mt_calls_admitted (tid : Nat) (op : NOp) (ht : tid < nThreads) (hi : idxOkN op) :
    (∀ st, LowRecv (preN st tid op)) ∧ (∀ s1, LowRecv (postN s1 tid op)) := lowRecv_lists tid op ht hi

set_option maxRecDepth 8000 in
/-- non-vacuity (String variables are slots 0..3, Variant 4..7): attach to unterminated memory, `operator const char*()`
    clones it into an owned block; a String of capacity 8 appended in place; a box built by `Variant(const List&)`, shared by a
    copy, and both released: every block released exactly once -/
example : ∃ s, apiRunN (init nTotal) 0
    [.flat (.gNew 0 tagStrU true [97, 98] 0), .flat (.gEdit 0 false [97, 98]), .flat (.gNew 1 tagStr false [] 8), .flat (.sAppend 1 [99]), .flat (.gEdit 1 false [67]), .flat (.gNew 4 tagVList false [3] 0),
     .flat (.vCopy 5 4), .flat (.gNew 4 tagVStr false [97] 0), .flat (.vClear 5), .flat (.vClear 4), .flat (.sDel 0), .flat (.sDel 1)] = some s
    ∧ s.next = 4 ∧ s.freed 0 = 1 ∧ s.freed 1 = 1 ∧ s.freed 2 = 1 ∧ s.freed 3 = 1 ∧ s.viol = 0 := by
  refine ⟨_, rfl, ?_⟩
  decide

example : ∃ s, apiRunN (init nTotal) 0 [.flat (.gNew 0 tagStrU true [97, 98] 0), .flat (.gEdit 0 false [97, 98]), .flat (.gNew 1 tagStr false [] 8), .flat (.sAppend 1 [99]), .flat (.gEdit 1 false [67])] = some s
    ∧ s.slots 0 = .blk 0 ∧ (s.heap 0).map (·.val) = some [97, 98] ∧ s.slots 1 = .blk 1
    ∧ (s.heap 1).map (fun b => (b.val, b.cap)) = some ([67], 8) ∧ s.next = 2 := by
  refine ⟨_, rfl, ?_⟩
  decide

/-! ### the String inside a Variant box as a real handle (cross-kind sharing, in-place writes THROUGH an embedded handle)
    `vSetS` (`V[d] = S[s]`), `sFromV` (`S[d] = v.toString() const`), `vAppS` (`V[d].toString().append(bytes)`) are `NOp` calls built from
    the existing atomic steps: the String inside a box of kind `tagVStrN` is embedded slot 0 of the box; a write through it is
    `takeE` (only with the ONLY handle of the box, `mt_embedded_write_sole`), the String call on the scratch slot (plain read of the
    String counter, in place only with the ONLY handle of the String data, `mt_write_sole`), `putE`.  All `nested_*` theorems,
    `nested_no_leak` and `mt_calls_admitted` quantify over histories containing them.  MODEL ONLY: see the OPEN block below. -/

set_option maxRecDepth 16000 in
/-- String variables are slots 0..3, Variant 4..7: S0 = "a" (data block 0); V4 = S0 (box 1, its String shares block 0); S1 = V4.toString()
    (block 0 now has three handles: S0, S1, the String inside box 1); V5 = V4; V5.toString().append("b"): the shared box is cloned
    (box 2), the String inside it is detached (block 3) — block 0, still shared, is NOT modified -/
example : ∃ s, apiRunN (init nTotal) 0
    [.flat (.sNew 0 [97]), .vSetS 4 0, .sFromV 1 4, .flat (.vCopy 5 4), .vAppS 5 [98]] = some s
    ∧ (s.heap 0).map (fun b => (b.val, b.ref)) = some ([97], 3) ∧ (s.heap 3).map (fun b => (b.val, b.ref)) = some ([97, 98], 1)
    ∧ s.slots (embSlotK 1 0) = .blk 0 ∧ s.slots (embSlotK 2 0) = .blk 3 ∧ s.slots 1 = .blk 0 ∧ s.next = 4 ∧ s.viol = 0 := by
  refine ⟨_, rfl, ?_⟩
  decide

set_option maxRecDepth 16000 in
/-- … a second append goes in place through the embedded handle (box 2 and block 3 have one handle each: no new block); once S0 and
    S1 are gone the String inside box 1 is the only handle of block 0 and is written in place as well; at the end every block has
    been released exactly once (the String data with the box that held its last handle) -/
example : ∃ s, apiRunN (init nTotal) 0
    [.flat (.sNew 0 [97]), .vSetS 4 0, .sFromV 1 4, .flat (.vCopy 5 4), .vAppS 5 [98], .vAppS 5 [99], .flat (.sDel 0), .flat (.sDel 1),
     .flat (.vClear 5)] = some s
    ∧ s.next = 4 ∧ s.freed 2 = 1 ∧ s.freed 3 = 1 ∧ s.freed 0 = 0 ∧ (s.heap 0).map (·.ref) = some 1 ∧ s.viol = 0 := by
  refine ⟨_, rfl, ?_⟩
  decide

/-- non-vacuity of the interleaved system: thread 0 builds a list holding a boxed Variant and hands the list variable
    to thread 1, which releases it; in the middle of the cascade (list box deleted, element not yet released) the
    embedded handle is an orphan with its decrement pending, at the end nothing is left -/
example : ∃ S, SReach nTotal S ∧ S.st.heap 1 = none ∧ S.st.slots (embSlotK 1 0) = .blk 0 ∧ S.st.freed 0 = 0
    ∧ S.pend 1 = [.dec (embSlotK 1 0), .free, .clr (embSlotK 1 0), .clr 5] := by
  have l0 : LowRecv [Act.alloc 4 tagVStr [97] 0, .alloc 5 tagVList [0] 0, .move 17 4, .putE 1 0 17 5, .give 5 1] :=
    lowRecv_of_B (by decide)
  have l1 : LowRecv (rel 5) := lowRecv_of_B (by decide)
  have s0 := SReach.call (tid := 0) (SReach.init (n := nTotal)) rfl l0
  have s1 := SReach.step (tid := 0) s0 (s1 := _) (r1 := _) rfl
  have s2 := SReach.step (tid := 0) s1 (s1 := _) (r1 := _) rfl
  have s3 := SReach.step (tid := 0) s2 (s1 := _) (r1 := _) rfl
  have s4 := SReach.step (tid := 0) s3 (s1 := _) (r1 := _) rfl
  have s5 := SReach.step (tid := 0) s4 (s1 := _) (r1 := _) rfl
  have s6 := SReach.call (tid := 1) s5 rfl l1
  have s7 := SReach.step (tid := 1) s6 (s1 := _) (r1 := _) rfl
  have s8 := SReach.step (tid := 1) s7 (s1 := _) (r1 := _) rfl
  exact ⟨_, s8, rfl, rfl, rfl, rfl⟩

/-- non-vacuity (Variant variables are slots 4..7): V0 = "a" (box 0); V1 = [V0] (list box 1 holding a handle to box 0);
    V2 = V1 shares the list box; mutable access to V2 clones the list box (box 2) and INCREMENTS the inner payload:
    box 0 now has three handles (V0 and one embedded in each list box), box 1 one -/
example : ∃ s, apiRunN (init nTotal) 0
    [.flat (.vSetStr 4 [97]), .vPushV 5 4, .flat (.vCopy 6 5), .flat (.vPush 6 7)] = some s
    ∧ (s.heap 0).map (·.ref) = some 3 ∧ (s.heap 1).map (·.ref) = some 1 ∧ (s.heap 2).map (·.ref) = some 1
    ∧ s.slots (embSlotK 1 0) = .blk 0 ∧ s.slots (embSlotK 2 0) = .blk 0 ∧ (s.heap 2).map (·.val) = some [0, 7]
    ∧ s.viol = 0 := by
  refine ⟨_, rfl, ?_⟩
  decide

/-- … and releasing the handles one by one: the inner payload survives the first list box and is released exactly once,
    by the cascade of the release of the last list box -/
example : ∃ s, apiRunN (init nTotal) 0
    [.flat (.vSetStr 4 [97]), .vPushV 5 4, .flat (.vCopy 6 5), .flat (.vPush 6 7), .flat (.vClear 4), .flat (.vClear 5),
     .flat (.vClear 6)] = some s
    ∧ s.freed 0 = 1 ∧ s.freed 1 = 1 ∧ s.freed 2 = 1 ∧ s.next = 3 ∧ s.viol = 0 := by
  refine ⟨_, rfl, ?_⟩
  decide

/-- the assigned value lives in the payload that the assignment releases: `V1 = V1.toList()[0]` (increment first) -/
example : ∃ s, apiRunN (init nTotal) 0 [.flat (.vSetStr 4 [97]), .vPushV 5 4, .flat (.vClear 4), .vGetV 5 5 0] = some s
    ∧ s.slots 5 = .blk 0 ∧ (s.heap 0).map (·.ref) = some 1 ∧ s.freed 1 = 1 ∧ s.freed 0 = 0 ∧ s.viol = 0 := by
  refine ⟨_, rfl, ?_⟩
  decide

set_option maxRecDepth 8000 in
/-- Xml (slots 8..11): an element with two children that share one text payload; a copy of the element is cloned by
    mutable access (each child incremented); everything is released exactly once at the end -/
example : ∃ s, apiRunN (init nTotal) 0
    [.flat (.xSetStr 8 [97]), .xAddC 9 8, .xAddC 9 8, .flat (.xCopy 10 9), .flat (.xElem 10 [98]), .flat (.xClear 8),
     .flat (.xClear 9), .xGetC 11 10 1, .flat (.xClear 10), .flat (.xClear 11)] = some s
    ∧ s.freed 0 = 1 ∧ s.freed 1 = 1 ∧ s.freed 2 = 1 ∧ s.next = 3 ∧ s.viol = 0 := by
  refine ⟨_, rfl, ?_⟩
  decide

/-! ### well-formed calls are never rejected (so the theorems above are not vacuous for any such history) -/

/-- every history of String / Variant / Xml::Variant calls (and Ptr::swap) on the 16 variables runs to the
    end: no call is rejected by the model (`flatOp` excludes only the RefCount::Ptr calls that walk through
    embedded `next` handles; for those see the OPEN note) -/
theorem apiRun_total_partial {n : Nat} (ops : List ApiOp) (hn : nSlots ≤ n)
    (hops : ∀ op, op ∈ ops → flatOp op = true ∧ idxOk op) : ∃ s, apiRun (init n) 0 ops = some s := by
  obtain ⟨s, h, _⟩ := apiRun_total_aux (tid := 0) (mine := mineAll) ops (conc_init n) hn (by decide) (by decide) (by decide)
    (fun op ho => ⟨(hops op ho).1, (hops op ho).2, idxMine_all op (hops op ho).2⟩)
  exact ⟨s, h⟩

/-- one call of one thread in ANY reachable situation of the interleaved system: the thread owns the slots
    `mine` (its variables and its two scratch slots, all top-level), is idle and its scratch slots are empty
    (`Conc s tid (A0 tid mine)`, which also contains the invariant); run without interruption the call succeeds
    and re-establishes this.  (Other threads may own all other slots and be in the middle of their calls.) -/
theorem apiStep_total_partial {s : St} {tid : Nat} {op : ApiOp} {mine : Nat → Bool} (hc : Conc s tid (A0 tid mine))
    (hn : nSlots ≤ s.n) (htid : tid < nThreads) (hf : flatOp op = true) (hi : idxOk op) (hmi : idxMine mine op)
    (hmU : mine (tmpU tid) = true) (hmT : mine (tmpT tid) = true) :
    ∃ s', apiStep s tid op = some s' ∧ Conc s' tid (A0 tid mine) :=
  let ⟨s', h, hc', _⟩ := apiStep_total hc hn htid hf hi hmi hmU hmT
  ⟨s', h, hc'⟩

/-! ### enabledness under interleaving: every thread with a pending call has an enabled step
    (`PlanTo s tid acts A'`: the remaining step list `acts` of thread `tid` passes the abstract interpreter from the
    thread's view `Conc` of its own slots; see Frame.lean) -/

/-- frame: a step of another thread changes nothing a thread's guards depend on (its pc, the owner and the
    content of its own top-level slots, n) -/
theorem mt_frame {s s' : St} {tid tid2 : Nat} {A : Abs} {a : Act} (hc : Conc s tid A)
    (hem : ∀ x, x ∈ A.empty → A.mine x = true) (hs : astep s tid2 a = some s') (hne : tid2 ≠ tid) :
    Conc s' tid A ∧ s'.n = s.n := conc_frame hc hem hs hne

/-- the remaining step list of a call stays executable whatever the other threads do in between … -/
theorem mt_plan_stable {s s' : St} {tid tid2 : Nat} {acts : List Act} {a : Act} {A' : Abs} (h : PlanTo s tid acts A')
    (hs : astep s tid2 a = some s') (hne : tid2 ≠ tid) : PlanTo s' tid acts A' := planTo_other h hs hne

/-- … and its next step is enabled whenever the scheduler picks the thread (never stuck, never rejected) -/
theorem mt_step_enabled {s : St} {tid : Nat} {a : Act} {r : List Act} {A' : Abs} (h : PlanTo s tid (a :: r) A') :
    ∃ s', astep s tid a = some s' ∧ PlanTo s' tid r A' := planTo_progress h

/-- a thread that is idle with empty scratch slots can start any String / Variant / Xml::Variant call on its
    own variables: the `pre` list is such a plan … -/
theorem mt_call_enabled_pre {s : St} {tid : Nat} {op : ApiOp} {mine : Nat → Bool} (hc : Conc s tid (A0 tid mine))
    (hn : nSlots ≤ s.n) (htid : tid < nThreads) (hf : flatOp op = true) (hi : idxOk op) (hmi : idxMine mine op)
    (hmU : mine (tmpU tid) = true) (hmT : mine (tmpT tid) = true) :
    ∃ A1, PlanTo s tid (pre s tid op) A1 ∧ okMid s.n tid op (some A1) := mt_call_pre hc hn htid hf hi hmi hmU hmT

/-- … when it is finished (in whatever state the interleaving has led to) the `post` list decided there is a
    plan that ends idle with empty scratch slots … -/
theorem mt_call_enabled_post {s1 : St} {tid : Nat} {op : ApiOp} {A1 : Abs} {n : Nat} (hdone : PlanTo s1 tid [] A1)
    (hn : s1.n = n) (ok : okMid n tid op (some A1)) :
    ∃ A2, PlanTo s1 tid (post s1 tid op) A2 ∧ A2.good tid ∧ A2.mine = A1.mine := mt_call_post hdone hn ok

/-- … and after it the thread is ready for its next call: the three statements chain over whole programs of
    all threads, so the interleavings the correspondence runs are accepted step by step (for the flat calls) -/
theorem mt_call_enabled_done {s2 : St} {tid : Nat} {A2 : Abs} {mine : Nat → Bool} (hdone : PlanTo s2 tid [] A2)
    (hg : A2.good tid) (hm : A2.mine = mine) : Conc s2 tid (A0 tid mine) := mt_call_done hdone hg hm

/-- quiescent states of the interleaved system leak nothing: when no thread is inside a call every live block has
    a handle -/
theorem mt_quiescent_no_leak {n : Nat} {s : St} (h : Reach n s) (hq : ∀ t, s.pc t = .idle) (b : Nat) (blk : Block)
    (hb : s.heap b = some blk) : 0 < handles s b := by
  have inv := inv_reach h
  have hc := inv.cnt b blk hb
  by_cases z : blk.ref = 0
  · obtain ⟨t, hf⟩ := inv.zero b blk hb z
    rw [hq t] at hf; cases hf
  · omega

/-- RefCount::Ptr too: every history of String / Variant / Xml::Variant calls and of the Ptr calls `d = new Obj`,
    copy construction, `operator=`, `d = Ptr()`, `swap` (objects without a `next` handle) on the 16 variables
    runs to the end: none of these calls is rejected, so `ref_counts_handles`, `freed_once_after_last` and
    `no_inplace_write_while_shared` are not vacuous for any such history -/
theorem apiRun_total_noNext {n : Nat} (ops : List ApiOp) (hn : nSlots ≤ n)
    (hops : ∀ op, op ∈ ops → (flatOp op = true ∨ ptrOp op = true) ∧ idxOk op) : ∃ s, apiRun (init n) 0 ops = some s := by
  obtain ⟨s, h, _⟩ := apiRun_total_noNext_aux (tid := 0) (mine := mineAll) ops (noEmb_init n) (conc_init n) hn
    (by decide) (by decide) (by decide)
    (fun op ho => ⟨(hops op ho).1, (hops op ho).2, idxMine_all op (hops op ho).2⟩)
  exact ⟨s, h⟩

/-
  OPEN: totality for the calls that create or walk `next` handles (`pLink`, `pNext`, `pNextOf`, and the other Ptr
  calls once a `next` handle exists): their step lists depend on the object graph, need fewer than `maxBlocks`
  allocations (`init nTotal`) and a non-null `d` for `d->next`.  The examples below run such histories; in the
  correspondence runs a rejected call would show up as `bad-op` against the implementation's observation.
-/

/-- `next` handles on the proper initial state `init nTotal`: a chain of three nodes, a walk with `d = d->next`
    that releases the nodes behind it, and the final release: every node released exactly once -/
example : ∃ s, apiRun (init nTotal) 0
    [.pNew 0 1, .pNew 1 2, .pNew 2 3, .pLink 1 2, .pLink 0 1, .pClear 1, .pClear 2, .pNext 0, .pNext 0, .pNext 0] = some s
    ∧ s.freed 0 = 1 ∧ s.freed 1 = 1 ∧ s.freed 2 = 1 ∧ s.viol = 0 ∧ s.slots 0 = .none := by
  refine ⟨_, rfl, ?_⟩
  decide

/-- a two-node cycle stays alive when the variables go (counted handles), a self-assignment changes nothing -/
example : ∃ s, apiRun (init nTotal) 0
    [.pNew 0 1, .pNew 1 2, .pLink 0 1, .pLink 1 0, .pAssign 0 0, .pClear 0, .pClear 1] = some s
    ∧ s.freed 0 = 0 ∧ s.freed 1 = 0 ∧ (s.heap 0).map (·.ref) = some 1 ∧ (s.heap 1).map (·.ref) = some 1 ∧ s.viol = 0 := by
  refine ⟨_, rfl, ?_⟩
  decide

/-- without `next` handles the Ptr calls are covered by `apiRun_total_noNext`; one concrete history -/
example : ∃ s, apiRun (init nSlots) 0 [.pNew 12 1, .pCopy 13 12, .pAssign 14 13, .pSwap 12 14, .pClear 12, .pClear 13, .pClear 14] = some s
    ∧ s.freed 0 = 1 ∧ s.viol = 0 := by
  refine ⟨_, rfl, ?_⟩
  decide



/-! ### no use of a handle after its reference was dropped
    (`dec` forgets the pointer in the model; `Stale.lean` instruments the step sequences with the pointer that
    the C++ object still holds until it is overwritten, and counts every read of such a slot as `misuse`) -/

/-- every history of calls of Model.lean — String, Variant, Xml::Variant and ALL RefCount::Ptr calls, including those that
    create or walk `next` handles (`d->next = s`, `d = d->next`, `d = s->next`) and the destructor cascade: no step ever
    reads (copies, dereferences, releases again) a handle between the decrement through it and the store that
    overwrites it.  For `Ptr::operator=` this is the order "read the assigned handle, then release" (defect D37). -/
theorem no_use_after_drop {n : Nat} {ops : List ApiOp} {s : St} {g : Gh}
    (hops : ∀ op, op ∈ ops → flatOp op = true → idxOk op) (h : apiRunG (init n) gh0 0 ops = some (s, g)) :
    g.misuse = 0 :=
  (apiRunG_clean_all ops (by decide) hops gh0_clean h).1

/-- `d = d->next` (Ptr variables are slots 12..15): the step list of the real order passes the check, the
    decrement-first order of D37 (`release; read other`) reads the stale slot -/
example : staleOk [] [.incE 17 0 0 12, .dec 12, .free, .clr 12, .move 12 17] = some []
    ∧ staleOk [] [.dec 12, .free, .incE 17 0 0 12, .clr 12, .move 12 17] = none := by decide

/-- a walk along a chain with `d = d->next` and a re-link, instrumented: accepted, no misuse -/
example : ∃ s g, apiRunG (init nTotal) gh0 0 [.pNew 12 1, .pNew 13 2, .pLink 12 13, .pClear 13, .pNext 12, .pNext 12] = some (s, g)
    ∧ g.misuse = 0 ∧ s.freed 0 = 1 ∧ s.freed 1 = 1 := by
  refine ⟨_, _, rfl, ?_⟩
  decide

/-- the instrumentation does see the defect class: the decrement-first `operator=` on a self-assignment
    (`release; acquire from the same handle`) is a misuse, the order of the real code is not -/
example : ∃ s g, runTG (init nSlots) gh0 0 [.alloc 0 30 [1] 0, .dec 0, .free, .inc 17 0, .move 0 17] = some (s, g) ∧
    g.misuse = 1 := by
  refine ⟨_, _, rfl, ?_⟩
  decide

example : ∃ s g, runTG (init nSlots) gh0 0 [.alloc 0 30 [1] 0, .inc 17 0, .dec 0, .free, .move 0 17] = some (s, g) ∧
    g.misuse = 0 ∧ s.freed 0 = 0 := by
  refine ⟨_, _, rfl, ?_⟩
  decide

/-- the round-7 calls are flat calls: histories containing them are never rejected and no step of them reads a dropped handle -/
example : (∃ s, apiRun (init nSlots) 0 [.gNew 0 tagStrU true [97] 0, .gEdit 0 false [97], .gNew 1 tagStr false [] 8,
      .gNew 4 tagVList false [3] 0, .vCopy 5 4, .gNew 4 tagVStr false [97] 0] = some s)
    ∧ ∀ s g, apiRunG (init nSlots) gh0 0 [.gNew 0 tagStrU true [97] 0, .gEdit 0 false [97], .gNew 4 tagVList false [3] 0, .vCopy 5 4,
      .gNew 4 tagVStr false [97] 0] = some (s, g) → g.misuse = 0 := by
  constructor
  · apply apiRun_total_partial _ (by decide)
    intro op ho
    simp only [List.mem_cons, List.not_mem_nil, or_false] at ho
    rcases ho with rfl | rfl | rfl | rfl | rfl | rfl <;> exact ⟨rfl, by simp [idxOk, nVars]⟩
  · intro s g h
    refine no_use_after_drop ?_ h
    intro op ho _
    simp only [List.mem_cons, List.not_mem_nil, or_false] at ho
    rcases ho with rfl | rfl | rfl | rfl | rfl <;> simp [idxOk, nVars]

/-! ### non-vacuity: concrete histories / schedules that exercise sharing, cloning, release -/

/-- copy, write to the copy (clones), drop the source (releases block 0 exactly once) -/
example : ∃ s, apiRun (init nSlots) 0 [.sNew 0 [97], .sCopy 1 0, .sAppend 1 [98], .sDel 0] = some s
    ∧ s.next = 2 ∧ s.freed 0 = 1 ∧ s.freed 1 = 0 ∧ (s.heap 1).map (·.val) = some [97, 98] := by
  refine ⟨_, rfl, ?_⟩
  decide

/-- a sole owner appends in place (no new block) -/
example : ∃ s, apiRun (init nSlots) 0 [.sNew 0 [97], .sAppend 0 [98]] = some s
    ∧ s.next = 1 ∧ (s.heap 0).map (·.val) = some [97, 98] := by
  refine ⟨_, rfl, ?_⟩
  decide

/-- two threads: thread 1 reads the counter of a shared block (2: clone), thread 2 drops its
    handle in between, thread 1 then releases the last reference and frees the block -/
example : ∃ s, runSched (init nSlots)
    [(0, .alloc 0 0 [97] 3), (0, .inc 1 0), (0, .give 0 1), (0, .give 1 2), (0, .give 17 1),
     (1, .readRef 0 true), (2, .dec 1), (1, .alloc 17 0 [97, 98] 3), (1, .dec 0), (1, .free), (1, .move 0 17)] = some s
    ∧ s.freed 0 = 1 ∧ s.heap 0 = none ∧ s.slots 0 = .blk 1 ∧ s.viol = 0 := by
  refine ⟨_, rfl, ?_⟩
  decide

/-- a reachable state in which a thread stands between its counter read and its in-place write
    (the hypothesis of `mt_write_sole` / the exception of `mt_view_stable`) -/
example : ∃ s, Reach nSlots s ∧ s.pc 1 = .writing 0 0 ∧ (astep s 1 (.write [98])).isSome = true := by
  refine ⟨_, reach_runSched [(0, .alloc 0 0 [97] 3), (0, .give 0 1), (1, .readRef 0 true)] Reach.init rfl, ?_⟩
  decide

/-- a reachable state in which a block is shared by handles of two different threads -/
example : ∃ s, Reach nSlots s ∧ (∃ blk, s.heap 0 = some blk ∧ blk.ref = 2) ∧ s.owner 0 ≠ s.owner 1 := by
  refine ⟨_, reach_runSched [(0, .alloc 0 0 [97] 3), (0, .inc 1 0), (0, .give 1 2)] Reach.init rfl, ?_⟩
  decide

end Nstd.Rc
