import Nstd.Rc.Model
namespace Nstd.Rc
theorem placeholder : (init 3).next = 0 := rfl
end Nstd.Rc
