import Nstd.Rc.Model
/-
  Invariant of the interleaving system of Model.lean and its preservation by every atomic step.
-/
namespace Nstd.Rc

/-- updating one slot changes the handle count of a block by the obvious ±1 -/
theorem handlesOf_upd (n : Nat) (slots : Nat → Handle) (v : Nat) (x : Handle) (b : Nat) (hv : v < n) :
    handlesOf n (upd slots v x) b + (if slots v = .blk b then 1 else 0)
      = handlesOf n slots b + (if x = .blk b then 1 else 0) := by
  unfold handlesOf
  induction n with
  | zero => omega
  | succ n ih =>
    simp only [List.range_succ, List.countP_append, List.countP_cons, List.countP_nil]
    by_cases h : v < n
    · have := ih h
      have hne : n ≠ v := by omega
      simp only [upd_other _ _ _ _ hne]
      omega
    · have e : v = n := by omega
      subst e
      have same : List.countP (fun w => upd slots v x w == Handle.blk b) (List.range v)
          = List.countP (fun w => slots w == Handle.blk b) (List.range v) := by
        apply List.countP_congr
        intro w hw
        have : w ≠ v := by have := List.mem_range.mp hw; omega
        simp [upd_other _ _ _ _ this]
      rw [same]
      simp only [upd_same]
      by_cases h1 : slots v = .blk b <;> by_cases h2 : x = .blk b <;> simp [h1, h2] <;> omega

/-- a slot update with a non-pointer value, on a slot that holds no pointer, changes no count -/
theorem handlesOf_upd_nonblk (n : Nat) (slots : Nat → Handle) (v : Nat) (x : Handle) (b : Nat) (hv : v < n)
    (h1 : (slots v).isBlk = false) (h2 : x.isBlk = false) : handlesOf n (upd slots v x) b = handlesOf n slots b := by
  have := handlesOf_upd n slots v x b hv
  have a : ¬ slots v = .blk b := by intro e; rw [e] at h1; simp [Handle.isBlk] at h1
  have c : ¬ x = .blk b := by intro e; rw [e] at h2; simp [Handle.isBlk] at h2
  simp only [a, c, if_false] at this
  omega

theorem handles_pos (n : Nat) (slots : Nat → Handle) (v b : Nat) (hv : v < n) (h : slots v = .blk b) :
    1 ≤ handlesOf n slots b := by
  have := handlesOf_upd n slots v .none b hv
  simp only [h, if_true, reduceCtorEq, if_false] at this
  omega

/-- two different slots holding a pointer to the same block: the count is at least two -/
theorem sole_handle (n : Nat) (slots : Nat → Handle) (v w b : Nat) (hv : v < n) (hw : w < n) (hvw : w ≠ v)
    (h1 : slots v = .blk b) (h2 : slots w = .blk b) : 2 ≤ handlesOf n slots b := by
  have a := handlesOf_upd n slots v .none b hv
  have c := handles_pos n (upd slots v .none) w b hw (by rw [upd_other _ _ _ _ hvw]; exact h2)
  simp only [h1, if_true, reduceCtorEq, if_false] at a
  omega

structure Inv (s : St) : Prop where
  cnt     : ∀ b blk, s.heap b = some blk → blk.ref = handles s b
  live    : ∀ v b, v < s.n → s.slots v = .blk b → ∃ blk, s.heap b = some blk
  fresh   : ∀ b, s.next ≤ b → s.heap b = none ∧ s.freed b = 0
  freedOnce : ∀ b, b < s.next → s.freed b = (if s.heap b = none then 1 else 0)
  zero    : ∀ b blk, s.heap b = some blk → blk.ref = 0 → ∃ tid, s.pc tid = .freeing b
  freeing : ∀ tid b, s.pc tid = .freeing b →
              (∃ blk, s.heap b = some blk ∧ blk.ref = 0) ∧ ∀ tid', s.pc tid' = .freeing b → tid' = tid
  writing : ∀ tid t b, s.pc tid = .writing t b →
              t < s.n ∧ s.owner t = tid ∧ s.slots t = .blk b ∧ ∃ blk, s.heap b = some blk ∧ blk.ref = 1
  noviol  : s.viol = 0

theorem inv_init (n : Nat) : Inv (init n) := by
  constructor <;> simp [init]

/-- a pointer held in a slot: the block is live with a positive counter -/
theorem Inv.ref_pos {s : St} (h : Inv s) {v b : Nat} (hv : v < s.n) (hs : s.slots v = .blk b) :
    ∃ blk, s.heap b = some blk ∧ 1 ≤ blk.ref := by
  obtain ⟨blk, hb⟩ := h.live v b hv hs
  refine ⟨blk, hb, ?_⟩
  rw [h.cnt b blk hb]
  exact handles_pos _ _ _ _ hv hs


theorem inv_give {s s' : St} {tid v tid' : Nat} (h : Inv s) (hs : astep s tid (.give v tid') = some s') : Inv s' := by
  simp only [astep] at hs
  split at hs
  case isFalse => cases hs
  case isTrue hc =>
    obtain ⟨hv, ho, hp⟩ := hc
    cases hs
    refine ⟨h.cnt, h.live, h.fresh, h.freedOnce, h.zero, h.freeing, ?_, h.noviol⟩
    intro t2 t b hw
    obtain ⟨a1, a2, a3, a4⟩ := h.writing t2 t b hw
    refine ⟨a1, ?_, a3, a4⟩
    by_cases e : t = v
    · subst e
      simp only at hw
      rw [ho] at a2; subst a2; rw [hp] at hw; cases hw
    · simp only [upd_other _ _ _ _ e]; exact a2


/-- a slot of an idle thread is not the slot through which some thread is about to write -/
theorem not_writing_slot {s : St} (h : Inv s) {x tid tid2 t b : Nat} (ho : s.owner x = tid) (hp : s.pc tid = .idle)
    (hw : s.pc tid2 = .writing t b) : t ≠ x := by
  intro e
  subst e
  obtain ⟨_, a2, _, _⟩ := h.writing tid2 t b hw
  rw [ho] at a2; subst a2; rw [hp] at hw; cases hw

/-- thread-local rearrangement of handles: counts unchanged, no new block designated, writers' slots untouched -/
theorem inv_slots {s : St} (sl : Nat → Handle) (h : Inv s)
    (hc : ∀ b, handlesOf s.n sl b = handlesOf s.n s.slots b)
    (hl : ∀ v b, v < s.n → sl v = .blk b → ∃ w, w < s.n ∧ s.slots w = .blk b)
    (hw : ∀ tid t b, s.pc tid = .writing t b → sl t = s.slots t) :
    Inv { s with slots := sl } := by
  refine ⟨?_, ?_, h.fresh, h.freedOnce, h.zero, h.freeing, ?_, h.noviol⟩
  · intro b blk hb
    simp only [handles, hc b]
    exact h.cnt b blk hb
  · intro v b hv hs
    obtain ⟨w, hw1, hw2⟩ := hl v b hv hs
    exact h.live w b hw1 hw2
  · intro tid t b hp
    obtain ⟨a1, a2, a3, a4⟩ := h.writing tid t b hp
    refine ⟨a1, a2, ?_, a4⟩
    simp only [hw tid t b hp]; exact a3

theorem inv_setInl {s s' : St} {tid d tag : Nat} {val : List Nat} (h : Inv s)
    (hs : astep s tid (.setInl d tag val) = some s') : Inv s' := by
  simp only [astep] at hs
  split at hs
  case isFalse => cases hs
  case isTrue hc =>
    obtain ⟨hd, ho, hp, hb⟩ := hc
    cases hs
    apply inv_slots _ h
    · intro b; exact handlesOf_upd_nonblk _ _ _ _ _ hd hb rfl
    · intro v b hv hv2
      by_cases e : v = d
      · subst e; simp at hv2
      · rw [upd_other _ _ _ _ e] at hv2; exact ⟨v, hv, hv2⟩
    · intro tid2 t b hw
      rw [upd_other _ _ _ _ (not_writing_slot h ho hp hw)]

/-- a slot whose owner is not between a counter read and its write is not the slot of any writer -/
theorem nw_of_notWriting {s : St} (h : Inv s) {x tid2 t b : Nat} (hn : (s.pc (s.owner x)).notWriting = true)
    (hw : s.pc tid2 = .writing t b) : t ≠ x := by
  intro e
  subst e
  obtain ⟨_, a2, _, _⟩ := h.writing tid2 t b hw
  rw [a2, hw] at hn
  simp [Pc.notWriting] at hn

theorem notWriting_of_idle {s : St} {x tid : Nat} (ho : s.owner x = tid) (hp : s.pc tid = .idle) :
    (s.pc (s.owner x)).notWriting = true := by rw [ho, hp]; rfl

theorem inv_doMove {s : St} {d t : Nat} (h : Inv s) (hd : d < s.n) (ht : t < s.n) (hne : d ≠ t)
    (hb : (s.slots d).isBlk = false)
    (hnd : (s.pc (s.owner d)).notWriting = true) (hnt : (s.pc (s.owner t)).notWriting = true) :
    Inv (doMove s d t) := by
  apply inv_slots _ h
  · intro b
    have c1 := handlesOf_upd s.n s.slots d (s.slots t) b hd
    have c2 := handlesOf_upd s.n (upd s.slots d (s.slots t)) t .none b ht
    have e : upd s.slots d (s.slots t) t = s.slots t := upd_other _ _ _ _ (Ne.symm hne)
    have nb : ¬ s.slots d = .blk b := by intro e; rw [e] at hb; simp [Handle.isBlk] at hb
    simp only [e, nb, reduceCtorEq, if_false] at c1 c2
    omega
  · intro v b hv hv2
    by_cases e1 : v = t
    · subst e1; simp at hv2
    · rw [upd_other _ _ _ _ e1] at hv2
      by_cases e2 : v = d
      · subst e2; simp at hv2; exact ⟨t, ht, hv2⟩
      · rw [upd_other _ _ _ _ e2] at hv2; exact ⟨v, hv, hv2⟩
  · intro tid2 x b hw
    rw [upd_other _ _ _ _ (nw_of_notWriting h hnt hw), upd_other _ _ _ _ (nw_of_notWriting h hnd hw)]

theorem inv_move {s s' : St} {tid d t : Nat} (h : Inv s) (hs : astep s tid (.move d t) = some s') : Inv s' := by
  simp only [astep] at hs
  split at hs
  case isFalse => cases hs
  case isTrue hc =>
    obtain ⟨hd, ht, hne, ho, ho2, hp, hb⟩ := hc
    cases hs
    exact inv_doMove h hd ht hne hb (notWriting_of_idle ho hp) (notWriting_of_idle ho2 hp)

theorem inv_takeE {s s' : St} {tid t c k v : Nat} (h : Inv s) (hs : astep s tid (.takeE t c k v) = some s') : Inv s' := by
  simp only [astep] at hs
  split at hs
  case isFalse => cases hs
  case isTrue hc =>
    obtain ⟨ht, hx, hne, ho, hp, hb, hnx, _⟩ := hc
    cases hs
    exact inv_doMove h ht hx hne hb (notWriting_of_idle ho hp) hnx

theorem inv_putE {s s' : St} {tid t c k v : Nat} (h : Inv s) (hs : astep s tid (.putE c k t v) = some s') : Inv s' := by
  simp only [astep] at hs
  split at hs
  case isFalse => cases hs
  case isTrue hc =>
    obtain ⟨ht, hx, hne, ho, hp, hb, hnx, _⟩ := hc
    cases hs
    exact inv_doMove h hx ht (Ne.symm hne) hb hnx (notWriting_of_idle ho hp)

theorem inv_takeF {s s' : St} {tid t c k : Nat} (h : Inv s) (hs : astep s tid (.takeF t c k) = some s') : Inv s' := by
  simp only [astep] at hs
  split at hs
  case isFalse => cases hs
  case isTrue hc =>
    obtain ⟨ht, hx, hne, ho, hp, hb, hnx, _⟩ := hc
    cases hs
    exact inv_doMove h ht hx hne hb (by rw [ho, hp]; rfl) hnx

/-- the releasing thread becomes the owner of a handle embedded in the dying block -/
theorem inv_adoptF {s s' : St} {tid c k : Nat} (h : Inv s) (hs : astep s tid (.adoptF c k) = some s') : Inv s' := by
  simp only [astep] at hs
  split at hs
  case isFalse => cases hs
  case isTrue hc =>
    obtain ⟨hx, hp, hnx, _⟩ := hc
    cases hs
    refine ⟨h.cnt, h.live, h.fresh, h.freedOnce, h.zero, h.freeing, ?_, h.noviol⟩
    intro t2 t b hw
    obtain ⟨a1, a2, a3, a4⟩ := h.writing t2 t b hw
    refine ⟨a1, ?_, a3, a4⟩
    have e : t ≠ embSlotK c k := nw_of_notWriting h hnx hw
    simp only [upd_other _ _ _ _ e]; exact a2

theorem inv_swap {s s' : St} {tid a c : Nat} (h : Inv s) (hs : astep s tid (.swap a c) = some s') : Inv s' := by
  simp only [astep] at hs
  split at hs
  case isFalse => cases hs
  case isTrue hc =>
    obtain ⟨ha, hcn, ho, ho2, hp⟩ := hc
    cases hs
    apply inv_slots _ h
    · intro b
      have c1 := handlesOf_upd s.n s.slots a (s.slots c) b ha
      have c2 := handlesOf_upd s.n (upd s.slots a (s.slots c)) c (s.slots a) b hcn
      by_cases e : c = a
      · subst e
        simp only [upd_same] at c2
        omega
      · rw [upd_other _ _ _ _ e] at c2
        omega
    · intro v b hv hv2
      by_cases e1 : v = c
      · subst e1; simp at hv2; exact ⟨a, ha, hv2⟩
      · rw [upd_other _ _ _ _ e1] at hv2
        by_cases e2 : v = a
        · subst e2; simp at hv2; exact ⟨c, hcn, hv2⟩
        · rw [upd_other _ _ _ _ e2] at hv2; exact ⟨v, hv, hv2⟩
    · intro tid2 x b hw
      rw [upd_other _ _ _ _ (not_writing_slot h ho2 hp hw), upd_other _ _ _ _ (not_writing_slot h ho hp hw)]


theorem handles_zero (n : Nat) (slots : Nat → Handle) (b : Nat) (h : ∀ v, v < n → slots v ≠ .blk b) :
    handlesOf n slots b = 0 := by
  unfold handlesOf
  rw [List.countP_eq_zero]
  intro v hv
  have := h v (List.mem_range.mp hv)
  simpa using this

theorem not_isBlk {hd : Handle} (h : hd.isBlk = false) (b : Nat) : ¬ hd = .blk b := by
  intro e; rw [e] at h; simp [Handle.isBlk] at h

theorem inv_doInc {s : St} {tid t src : Nat} (h : Inv s) (ht : t < s.n) (hsrc : src < s.n) (ho : s.owner t = tid)
    (hp : s.pc tid = .idle) (hb : (s.slots t).isBlk = false)
    (hns : (s.pc (s.owner src)).notWriting = true) : Inv (doInc s t src) := by
  simp only [doInc]
  cases hsl : s.slots src with
  | none =>
    simp only []
    apply inv_slots _ h
    · intro b; exact handlesOf_upd_nonblk _ _ _ _ _ ht hb rfl
    · intro v b hv hv2
      by_cases e : v = t
      · subst e; simp at hv2
      · rw [upd_other _ _ _ _ e] at hv2; exact ⟨v, hv, hv2⟩
    · intro tid2 x b hw
      rw [upd_other _ _ _ _ (not_writing_slot h ho hp hw)]
  | inl tag val =>
    simp only []
    apply inv_slots _ h
    · intro b; exact handlesOf_upd_nonblk _ _ _ _ _ ht hb rfl
    · intro v b hv hv2
      by_cases e : v = t
      · subst e; simp at hv2
      · rw [upd_other _ _ _ _ e] at hv2; exact ⟨v, hv, hv2⟩
    · intro tid2 x b hw
      rw [upd_other _ _ _ _ (not_writing_slot h ho hp hw)]
  | blk b =>
    obtain ⟨blk, hblk, hpos⟩ := h.ref_pos hsrc hsl
    simp only [hblk]
    have hcnt := h.cnt b blk hblk
    have hnb := not_isBlk hb
    refine ⟨?_, ?_, ?_, ?_, ?_, ?_, ?_, h.noviol⟩
    · intro b2 blk2 hb2
      have hu := handlesOf_upd s.n s.slots t (.blk b) b2 ht
      simp only [hnb b2, if_false] at hu
      simp only [handles] at *
      by_cases e : b2 = b
      · subst e
        simp only [upd_same, Option.some.injEq] at hb2
        subst hb2
        simp only [if_true] at hu
        simp only; omega
      · simp only [upd_other _ _ _ _ e] at hb2
        have := h.cnt b2 blk2 hb2
        have ne : ¬ Handle.blk b = Handle.blk b2 := by intro x; injection x with x; exact e x.symm
        simp only [ne, if_false] at hu
        simp only [handles] at this
        omega
    · intro v b2 hv hv2
      simp only at hv2 ⊢
      have hl : ∃ blk, s.heap b2 = some blk := by
        by_cases e : v = t
        · subst e; simp only [upd_same] at hv2; injection hv2 with hv2; subst hv2; exact ⟨blk, hblk⟩
        · rw [upd_other _ _ _ _ e] at hv2; exact h.live v b2 hv hv2
      by_cases e : b2 = b
      · subst e; exact ⟨_, upd_same _ _ _⟩
      · rw [upd_other _ _ _ _ e]; exact hl
    · intro b2 hb2
      have := h.fresh b2 hb2
      have e : b2 ≠ b := by intro e; subst e; rw [hblk] at this; cases this.1
      simp only [upd_other _ _ _ _ e]; exact this
    · intro b2 hb2
      have := h.freedOnce b2 hb2
      simp only at this ⊢
      by_cases e : b2 = b
      · subst e; simp only [upd_same, reduceCtorEq, if_false]; simpa [hblk] using this
      · simp only [upd_other _ _ _ _ e]; exact this
    · intro b2 blk2 hb2 hz
      simp only at hb2 ⊢
      by_cases e : b2 = b
      · subst e; simp only [upd_same, Option.some.injEq] at hb2; subst hb2; simp only at hz; omega
      · rw [upd_other _ _ _ _ e] at hb2; exact h.zero b2 blk2 hb2 hz
    · intro tid2 b2 hf
      obtain ⟨⟨blk2, hb2, hz⟩, hu⟩ := h.freeing tid2 b2 hf
      have e : b2 ≠ b := by intro e; subst e; rw [hblk] at hb2; injection hb2 with hb2; subst hb2; omega
      refine ⟨⟨blk2, ?_, hz⟩, hu⟩
      simp only [upd_other _ _ _ _ e]; exact hb2
    · intro tid2 t2 b2 hw
      obtain ⟨a1, a2, a3, blk2, a4, a5⟩ := h.writing tid2 t2 b2 hw
      have ne1 := not_writing_slot h ho hp hw
      have ne2 := nw_of_notWriting h hns hw
      refine ⟨a1, a2, ?_, blk2, ?_, a5⟩
      · simp only [upd_other _ _ _ _ ne1]; exact a3
      · have e : b2 ≠ b := by
          intro e; subst e
          have := sole_handle s.n s.slots t2 src b2 a1 hsrc (Ne.symm ne2) a3 hsl
          rw [hblk] at a4; injection a4 with a4; subst a4
          simp only [handles] at hcnt; omega
        simp only [upd_other _ _ _ _ e]; exact a4

theorem inv_inc {s s' : St} {tid t src : Nat} (h : Inv s) (hs : astep s tid (.inc t src) = some s') : Inv s' := by
  simp only [astep] at hs
  split at hs
  case isFalse => cases hs
  case isTrue hc =>
    obtain ⟨ht, hsrc, ho, ho2, hp, hb⟩ := hc
    cases hs
    exact inv_doInc h ht hsrc ho hp hb (notWriting_of_idle ho2 hp)

theorem inv_incE {s s' : St} {tid t c k v : Nat} (h : Inv s) (hs : astep s tid (.incE t c k v) = some s') : Inv s' := by
  simp only [astep] at hs
  split at hs
  case isFalse => cases hs
  case isTrue hc =>
    obtain ⟨ht, hx, ho, hp, hb, hnx, _⟩ := hc
    cases hs
    exact inv_doInc h ht hx ho hp hb hnx

theorem inv_dec {s s' : St} {tid t : Nat} (h : Inv s) (hs : astep s tid (.dec t) = some s') : Inv s' := by
  simp only [astep] at hs
  split at hs
  case isFalse => cases hs
  case isTrue hc =>
    obtain ⟨ht, ho, hp⟩ := hc
    have local_case : ∀ (hb : (s.slots t).isBlk = false), Inv { s with slots := upd s.slots t .none } := by
      intro hb
      apply inv_slots _ h
      · intro b; exact handlesOf_upd_nonblk _ _ _ _ _ ht hb rfl
      · intro v b hv hv2
        by_cases e : v = t
        · subst e; simp at hv2
        · rw [upd_other _ _ _ _ e] at hv2; exact ⟨v, hv, hv2⟩
      · intro tid2 x b hw
        rw [upd_other _ _ _ _ (not_writing_slot h ho hp hw)]
    cases hsl : s.slots t with
    | none => simp only [hsl] at hs; cases hs; exact local_case (by rw [hsl]; rfl)
    | inl tag val => simp only [hsl] at hs; cases hs; exact local_case (by rw [hsl]; rfl)
    | blk b =>
      obtain ⟨blk, hblk, hpos⟩ := h.ref_pos ht hsl
      have hr0 : ¬ blk.ref = 0 := by omega
      simp only [hsl, hblk, hr0, if_false] at hs; cases hs
      have hcnt := h.cnt b blk hblk
      -- no writer is about to write b: its slot and t would both designate b while ref b = 1
      have wr_ne : ∀ tid2 t2 b2, s.pc tid2 = .writing t2 b2 → t2 ≠ t ∧ b2 ≠ b ∧ tid2 ≠ tid := by
        intro tid2 t2 b2 hw
        obtain ⟨a1, a2, a3, blk2, a4, a5⟩ := h.writing tid2 t2 b2 hw
        have ne1 := not_writing_slot h ho hp hw
        refine ⟨ne1, ?_, ?_⟩
        · intro e; subst e
          have := sole_handle s.n s.slots t2 t b2 a1 ht (Ne.symm ne1) a3 hsl
          rw [hblk] at a4; injection a4 with a4; subst a4
          simp only [handles] at hcnt; omega
        · intro e; subst e; rw [hp] at hw; cases hw
      have fr_ne : ∀ tid2 b2, s.pc tid2 = .freeing b2 → b2 ≠ b ∧ tid2 ≠ tid := by
        intro tid2 b2 hf
        obtain ⟨⟨blk2, hb2, hz⟩, _⟩ := h.freeing tid2 b2 hf
        refine ⟨?_, ?_⟩
        · intro e; subst e; rw [hblk] at hb2; injection hb2 with hb2; subst hb2; omega
        · intro e; subst e; rw [hp] at hf; cases hf
      refine ⟨?_, ?_, ?_, ?_, ?_, ?_, ?_, h.noviol⟩
      · intro b2 blk2 hb2
        have hu := handlesOf_upd s.n s.slots t .none b2 ht
        simp only [reduceCtorEq, if_false, hsl] at hu
        simp only [handles] at *
        by_cases e : b2 = b
        · subst e
          simp only [upd_same, Option.some.injEq] at hb2
          subst hb2
          simp only [if_true] at hu
          simp only; omega
        · simp only [upd_other _ _ _ _ e] at hb2
          have := h.cnt b2 blk2 hb2
          have ne : ¬ Handle.blk b = Handle.blk b2 := by intro x; injection x with x; exact e x.symm
          simp only [ne, if_false] at hu
          simp only [handles] at this
          omega
      · intro v b2 hv hv2
        simp only at hv2 ⊢
        have hl : ∃ blk, s.heap b2 = some blk := by
          by_cases e : v = t
          · subst e; simp only [upd_same] at hv2; cases hv2
          · rw [upd_other _ _ _ _ e] at hv2; exact h.live v b2 hv hv2
        by_cases e : b2 = b
        · subst e; exact ⟨_, upd_same _ _ _⟩
        · rw [upd_other _ _ _ _ e]; exact hl
      · intro b2 hb2
        have := h.fresh b2 hb2
        have e : b2 ≠ b := by intro e; subst e; rw [hblk] at this; cases this.1
        simp only [upd_other _ _ _ _ e]; exact this
      · intro b2 hb2
        have := h.freedOnce b2 hb2
        simp only at this ⊢
        by_cases e : b2 = b
        · subst e; simp only [upd_same, reduceCtorEq, if_false]; simpa [hblk] using this
        · simp only [upd_other _ _ _ _ e]; exact this
      · intro b2 blk2 hb2 hz
        simp only at hb2 ⊢
        by_cases e : b2 = b
        · subst e; simp only [upd_same, Option.some.injEq] at hb2; subst hb2; simp only at hz
          have h1 : blk.ref = 1 := by omega
          refine ⟨tid, ?_⟩
          simp only [h1, if_true, upd_same]
        · rw [upd_other _ _ _ _ e] at hb2
          obtain ⟨tid2, hf⟩ := h.zero b2 blk2 hb2 hz
          refine ⟨tid2, ?_⟩
          have := (fr_ne tid2 b2 hf).2
          by_cases h1 : blk.ref = 1
          · simp only [h1, if_true, upd_other _ _ _ _ this]; exact hf
          · simp only [h1, if_false]; exact hf
      · intro tid2 b2 hf
        simp only at hf ⊢
        by_cases h1 : blk.ref = 1
        · simp only [h1, if_true] at hf ⊢
          by_cases et : tid2 = tid
          · subst et
            simp only [upd_same, Pc.freeing.injEq] at hf
            subst hf
            refine ⟨⟨_, upd_same _ _ _, by simp [h1]⟩, ?_⟩
            intro tid' hf'
            by_cases et' : tid' = tid2
            · exact et'
            · rw [upd_other _ _ _ _ et'] at hf'
              exact absurd rfl (fr_ne tid' b hf').1
          · rw [upd_other _ _ _ _ et] at hf
            obtain ⟨⟨blk2, hb2, hz⟩, hu⟩ := h.freeing tid2 b2 hf
            have e := (fr_ne tid2 b2 hf).1
            refine ⟨⟨blk2, by simp only [upd_other _ _ _ _ e]; exact hb2, hz⟩, ?_⟩
            intro tid' hf'
            by_cases et' : tid' = tid
            · subst et'; simp only [upd_same, Pc.freeing.injEq] at hf'; exact absurd hf'.symm e
            · rw [upd_other _ _ _ _ et'] at hf'; exact hu tid' hf'
        · simp only [h1, if_false] at hf ⊢
          obtain ⟨⟨blk2, hb2, hz⟩, hu⟩ := h.freeing tid2 b2 hf
          have e := (fr_ne tid2 b2 hf).1
          exact ⟨⟨blk2, by simp only [upd_other _ _ _ _ e]; exact hb2, hz⟩, hu⟩
      · intro tid2 t2 b2 hw
        simp only at hw ⊢
        have hw0 : s.pc tid2 = .writing t2 b2 := by
          by_cases h1 : blk.ref = 1
          · simp only [h1, if_true] at hw
            by_cases et : tid2 = tid
            · subst et; simp only [upd_same] at hw; cases hw
            · rw [upd_other _ _ _ _ et] at hw; exact hw
          · simp only [h1, if_false] at hw; exact hw
        obtain ⟨a1, a2, a3, blk2, a4, a5⟩ := h.writing tid2 t2 b2 hw0
        obtain ⟨n1, n2, n3⟩ := wr_ne tid2 t2 b2 hw0
        refine ⟨a1, a2, ?_, blk2, ?_, a5⟩
        · simp only [upd_other _ _ _ _ n1]; exact a3
        · simp only [upd_other _ _ _ _ n2]; exact a4


theorem inv_free {s s' : St} {tid : Nat} (h : Inv s) (hs : astep s tid .free = some s') : Inv s' := by
  simp only [astep] at hs
  cases hpc : s.pc tid with
  | idle => simp only [hpc] at hs; cases hs; exact h
  | writing t b => simp only [hpc] at hs; cases hs
  | freeing b =>
    obtain ⟨⟨blk, hblk, hz⟩, huniq⟩ := h.freeing tid b hpc
    simp only [hpc, hblk] at hs; cases hs
    have hcnt := h.cnt b blk hblk
    have nohandle : ∀ v, v < s.n → s.slots v ≠ .blk b := by
      intro v hv e
      have := handles_pos _ _ _ _ hv e
      simp only [handles] at hcnt; omega
    have hlt : b < s.next := by
      by_cases x : b < s.next
      · exact x
      · have := (h.fresh b (by omega)).1; rw [hblk] at this; cases this
    refine ⟨?_, ?_, ?_, ?_, ?_, ?_, ?_, h.noviol⟩
    · intro b2 blk2 hb2
      simp only at hb2
      by_cases e : b2 = b
      · subst e; simp at hb2
      · rw [upd_other _ _ _ _ e] at hb2; exact h.cnt b2 blk2 hb2
    · intro v b2 hv hv2
      simp only at hv2 ⊢
      have e : b2 ≠ b := by intro e; subst e; exact nohandle v hv hv2
      rw [upd_other _ _ _ _ e]; exact h.live v b2 hv hv2
    · intro b2 hb2
      simp only at hb2 ⊢
      have e : b2 ≠ b := by omega
      simp only [upd_other _ _ _ _ e]; exact h.fresh b2 hb2
    · intro b2 hb2
      simp only at hb2 ⊢
      by_cases e : b2 = b
      · subst e
        have := h.freedOnce b2 hb2
        simp only [hblk, reduceCtorEq, if_false] at this
        simp only [upd_same, if_true]; omega
      · simp only [upd_other _ _ _ _ e]; exact h.freedOnce b2 hb2
    · intro b2 blk2 hb2 hz2
      simp only at hb2 ⊢
      by_cases e : b2 = b
      · subst e; simp at hb2
      · rw [upd_other _ _ _ _ e] at hb2
        obtain ⟨tid2, hf⟩ := h.zero b2 blk2 hb2 hz2
        have : tid2 ≠ tid := by intro x; subst x; rw [hpc] at hf; injection hf with hf; exact e hf.symm
        exact ⟨tid2, by simp only [upd_other _ _ _ _ this]; exact hf⟩
    · intro tid2 b2 hf
      simp only at hf ⊢
      have et : tid2 ≠ tid := by intro x; subst x; simp at hf
      rw [upd_other _ _ _ _ et] at hf
      obtain ⟨⟨blk2, hb2, hz2⟩, hu⟩ := h.freeing tid2 b2 hf
      have e : b2 ≠ b := by intro e; subst e; exact et (huniq tid2 hf)
      refine ⟨⟨blk2, by simp only [upd_other _ _ _ _ e]; exact hb2, hz2⟩, ?_⟩
      intro tid' hf'
      have et' : tid' ≠ tid := by intro x; subst x; simp at hf'
      rw [upd_other _ _ _ _ et'] at hf'; exact hu tid' hf'
    · intro tid2 t2 b2 hw
      simp only at hw ⊢
      have et : tid2 ≠ tid := by intro x; subst x; simp at hw
      rw [upd_other _ _ _ _ et] at hw
      obtain ⟨a1, a2, a3, blk2, a4, a5⟩ := h.writing tid2 t2 b2 hw
      have e : b2 ≠ b := by intro e; subst e; rw [hblk] at a4; injection a4 with a4; subst a4; omega
      exact ⟨a1, a2, a3, blk2, by simp only [upd_other _ _ _ _ e]; exact a4, a5⟩

theorem inv_alloc {s s' : St} {tid t tag cap : Nat} {val : List Nat} (h : Inv s)
    (hs : astep s tid (.alloc t tag val cap) = some s') : Inv s' := by
  simp only [astep] at hs
  split at hs
  case isFalse => cases hs
  case isTrue hc =>
    obtain ⟨ht, ho, hp, hb⟩ := hc
    cases hs
    have hfr := h.fresh s.next (Nat.le_refl _)
    have live_ne : ∀ b2 blk2, s.heap b2 = some blk2 → b2 ≠ s.next := by
      intro b2 blk2 hb2 e; subst e; rw [hfr.1] at hb2; cases hb2
    have nohandle : ∀ v, v < s.n → s.slots v ≠ .blk s.next := by
      intro v hv e
      obtain ⟨blk, hblk⟩ := h.live v _ hv e
      exact live_ne _ _ hblk rfl
    have hz := handles_zero s.n s.slots s.next nohandle
    have hnb := not_isBlk hb
    refine ⟨?_, ?_, ?_, ?_, ?_, ?_, ?_, h.noviol⟩
    · intro b2 blk2 hb2
      have hu := handlesOf_upd s.n s.slots t (.blk s.next) b2 ht
      simp only [hnb b2, if_false] at hu
      simp only [handles] at *
      by_cases e : b2 = s.next
      · subst e
        simp only [upd_same, Option.some.injEq] at hb2
        subst hb2
        simp only [if_true] at hu
        simp only; omega
      · simp only [upd_other _ _ _ _ e] at hb2
        have := h.cnt b2 blk2 hb2
        have ne : ¬ Handle.blk s.next = Handle.blk b2 := by intro x; injection x with x; exact e x.symm
        simp only [ne, if_false] at hu
        simp only [handles] at this
        omega
    · intro v b2 hv hv2
      simp only at hv2 ⊢
      by_cases e : b2 = s.next
      · subst e; exact ⟨_, upd_same _ _ _⟩
      · rw [upd_other _ _ _ _ e]
        by_cases e2 : v = t
        · subst e2; simp only [upd_same] at hv2; injection hv2 with hv2; exact absurd hv2.symm e
        · rw [upd_other _ _ _ _ e2] at hv2; exact h.live v b2 hv hv2
    · intro b2 hb2
      simp only at hb2 ⊢
      have e : b2 ≠ s.next := by omega
      simp only [upd_other _ _ _ _ e]; exact h.fresh b2 (by omega)
    · intro b2 hb2
      simp only at hb2 ⊢
      by_cases e : b2 = s.next
      · subst e; simp only [upd_same, reduceCtorEq, if_false]; exact hfr.2
      · simp only [upd_other _ _ _ _ e]; exact h.freedOnce b2 (by omega)
    · intro b2 blk2 hb2 hz2
      simp only at hb2 ⊢
      by_cases e : b2 = s.next
      · subst e; simp only [upd_same, Option.some.injEq] at hb2; subst hb2; simp at hz2
      · rw [upd_other _ _ _ _ e] at hb2; exact h.zero b2 blk2 hb2 hz2
    · intro tid2 b2 hf
      obtain ⟨⟨blk2, hb2, hz2⟩, hu⟩ := h.freeing tid2 b2 hf
      have e := live_ne b2 blk2 hb2
      exact ⟨⟨blk2, by simp only [upd_other _ _ _ _ e]; exact hb2, hz2⟩, hu⟩
    · intro tid2 t2 b2 hw
      obtain ⟨a1, a2, a3, blk2, a4, a5⟩ := h.writing tid2 t2 b2 hw
      have ne1 := not_writing_slot h ho hp hw
      have e := live_ne b2 blk2 a4
      exact ⟨a1, a2, by simp only [upd_other _ _ _ _ ne1]; exact a3, blk2,
        by simp only [upd_other _ _ _ _ e]; exact a4, a5⟩

theorem inv_readRef {s s' : St} {tid t : Nat} {ok : Bool} (h : Inv s)
    (hs : astep s tid (.readRef t ok) = some s') : Inv s' := by
  simp only [astep] at hs
  split at hs
  case isFalse => cases hs
  case isTrue hc =>
    obtain ⟨ht, ho, hp⟩ := hc
    cases hsl : s.slots t with
    | none => simp only [hsl] at hs; cases hs; exact h
    | inl tag val => simp only [hsl] at hs; cases hs; exact h
    | blk b =>
      obtain ⟨blk, hblk, hpos⟩ := h.ref_pos ht hsl
      simp only [hsl, hblk] at hs
      split at hs
      case isFalse => cases hs; exact h
      case isTrue hc2 =>
        cases hs
        refine ⟨h.cnt, h.live, h.fresh, h.freedOnce, ?_, ?_, ?_, h.noviol⟩
        · intro b2 blk2 hb2 hz
          obtain ⟨tid2, hf⟩ := h.zero b2 blk2 hb2 hz
          have : tid2 ≠ tid := by intro x; subst x; rw [hp] at hf; cases hf
          exact ⟨tid2, by simp only [upd_other _ _ _ _ this]; exact hf⟩
        · intro tid2 b2 hf
          simp only at hf ⊢
          have et : tid2 ≠ tid := by intro x; subst x; simp at hf
          rw [upd_other _ _ _ _ et] at hf
          obtain ⟨hx, hu⟩ := h.freeing tid2 b2 hf
          refine ⟨hx, ?_⟩
          intro tid' hf'
          have et' : tid' ≠ tid := by intro x; subst x; simp at hf'
          rw [upd_other _ _ _ _ et'] at hf'; exact hu tid' hf'
        · intro tid2 t2 b2 hw
          simp only at hw ⊢
          by_cases et : tid2 = tid
          · subst et
            simp only [upd_same, Pc.writing.injEq] at hw
            obtain ⟨e1, e2⟩ := hw
            subst e1; subst e2
            exact ⟨ht, ho, hsl, blk, hblk, hc2.1⟩
          · rw [upd_other _ _ _ _ et] at hw; exact h.writing tid2 t2 b2 hw

theorem inv_write {s s' : St} {tid : Nat} {val : List Nat} (h : Inv s)
    (hs : astep s tid (.write val) = some s') : Inv s' := by
  simp only [astep] at hs
  cases hpc : s.pc tid with
  | idle => simp only [hpc] at hs; cases hs; exact h
  | freeing b => simp only [hpc] at hs; cases hs
  | writing t b =>
    obtain ⟨ht, ho, hsl, blk, hblk, hr1⟩ := h.writing tid t b hpc
    simp only [hpc, hblk] at hs; cases hs
    have hcnt := h.cnt b blk hblk
    have hone : handles s b = 1 := by omega
    refine ⟨?_, ?_, ?_, ?_, ?_, ?_, ?_, ?_⟩
    · intro b2 blk2 hb2
      simp only at hb2
      by_cases e : b2 = b
      · subst e; simp only [upd_same, Option.some.injEq] at hb2; subst hb2; exact hcnt
      · rw [upd_other _ _ _ _ e] at hb2; exact h.cnt b2 blk2 hb2
    · intro v b2 hv hv2
      simp only at hv2 ⊢
      by_cases e : b2 = b
      · subst e; exact ⟨_, upd_same _ _ _⟩
      · rw [upd_other _ _ _ _ e]; exact h.live v b2 hv hv2
    · intro b2 hb2
      have := h.fresh b2 hb2
      have e : b2 ≠ b := by intro e; subst e; rw [hblk] at this; cases this.1
      simp only [upd_other _ _ _ _ e]; exact this
    · intro b2 hb2
      have := h.freedOnce b2 hb2
      simp only at this ⊢
      by_cases e : b2 = b
      · subst e; simp only [upd_same, reduceCtorEq, if_false]; simpa [hblk] using this
      · simp only [upd_other _ _ _ _ e]; exact this
    · intro b2 blk2 hb2 hz
      simp only at hb2 ⊢
      by_cases e : b2 = b
      · subst e; simp only [upd_same, Option.some.injEq] at hb2; subst hb2; simp only at hz; omega
      · rw [upd_other _ _ _ _ e] at hb2
        obtain ⟨tid2, hf⟩ := h.zero b2 blk2 hb2 hz
        have : tid2 ≠ tid := by intro x; subst x; rw [hpc] at hf; cases hf
        exact ⟨tid2, by simp only [upd_other _ _ _ _ this]; exact hf⟩
    · intro tid2 b2 hf
      simp only at hf ⊢
      have et : tid2 ≠ tid := by intro x; subst x; simp at hf
      rw [upd_other _ _ _ _ et] at hf
      obtain ⟨⟨blk2, hb2, hz2⟩, hu⟩ := h.freeing tid2 b2 hf
      have e : b2 ≠ b := by intro e; subst e; rw [hblk] at hb2; injection hb2 with hb2; subst hb2; omega
      refine ⟨⟨blk2, by simp only [upd_other _ _ _ _ e]; exact hb2, hz2⟩, ?_⟩
      intro tid' hf'
      have et' : tid' ≠ tid := by intro x; subst x; simp at hf'
      rw [upd_other _ _ _ _ et'] at hf'; exact hu tid' hf'
    · intro tid2 t2 b2 hw
      simp only at hw ⊢
      have et : tid2 ≠ tid := by intro x; subst x; simp at hw
      rw [upd_other _ _ _ _ et] at hw
      obtain ⟨a1, a2, a3, blk2, a4, a5⟩ := h.writing tid2 t2 b2 hw
      refine ⟨a1, a2, a3, ?_⟩
      by_cases e : b2 = b
      · subst e
        rw [hblk] at a4; injection a4 with a4; subst a4
        exact ⟨_, upd_same _ _ _, a5⟩
      · exact ⟨blk2, by simp only [upd_other _ _ _ _ e]; exact a4, a5⟩
    · simp only [hone, if_true]
      exact h.noviol

theorem inv_astep {s s' : St} {tid : Nat} {a : Act} (h : Inv s) (hs : astep s tid a = some s') : Inv s' := by
  cases a with
  | inc t src => exact inv_inc h hs
  | dec t => exact inv_dec h hs
  | free => exact inv_free h hs
  | alloc t tag val cap => exact inv_alloc h hs
  | readRef t ok => exact inv_readRef h hs
  | write val => exact inv_write h hs
  | move d t => exact inv_move h hs
  | swap a b => exact inv_swap h hs
  | setInl d tag val => exact inv_setInl h hs
  | give v tid' => exact inv_give h hs
  | incE t c k v => exact inv_incE h hs
  | takeE t c k v => exact inv_takeE h hs
  | putE c k t v => exact inv_putE h hs
  | takeF t c k => exact inv_takeF h hs
  | adoptF c k => exact inv_adoptF h hs
  | clr t =>
    simp only [astep] at hs
    split at hs <;> first | (cases hs; done) | (cases hs; exact h)

theorem inv_reach {n : Nat} {s : St} (h : Reach n s) : Inv s := by
  induction h with
  | init => exact inv_init n
  | step _ hs ih => exact inv_astep ih hs


/-! ### uninterrupted runs and API histories stay inside `Reach` -/

theorem reach_runT {n : Nat} {tid : Nat} (acts : List Act) {s s' : St} (h : Reach n s)
    (hr : runT s tid acts = some s') : Reach n s' := by
  induction acts generalizing s with
  | nil => simp only [runT, Option.some.injEq] at hr; subst hr; exact h
  | cons a r ih =>
    simp only [runT] at hr
    cases ha : astep s tid a with
    | none => simp only [ha] at hr; cases hr
    | some s1 => simp only [ha] at hr; exact ih (Reach.step h ha) hr

theorem reach_apiStep {n tid : Nat} {op : ApiOp} {s s' : St} (h : Reach n s)
    (hr : apiStep s tid op = some s') : Reach n s' := by
  simp only [apiStep] at hr
  cases h1 : runT s tid (pre s tid op) with
  | none => simp only [h1] at hr; cases hr
  | some s1 => simp only [h1] at hr; exact reach_runT _ (reach_runT _ h h1) hr

theorem reach_apiRun {n tid : Nat} (ops : List ApiOp) {s s' : St} (h : Reach n s)
    (hr : apiRun s tid ops = some s') : Reach n s' := by
  induction ops generalizing s with
  | nil => simp only [apiRun, Option.some.injEq] at hr; subst hr; exact h
  | cons op r ih =>
    simp only [apiRun] at hr
    cases ha : apiStep s tid op with
    | none => simp only [ha] at hr; cases hr
    | some s1 => simp only [ha] at hr; exact ih (reach_apiStep h ha) hr

theorem reach_runSched {n : Nat} (sched : List (Nat × Act)) {s s' : St} (h : Reach n s)
    (hr : runSched s sched = some s') : Reach n s' := by
  induction sched generalizing s with
  | nil => simp only [runSched, Option.some.injEq] at hr; subst hr; exact h
  | cons x r ih =>
    obtain ⟨tid, a⟩ := x
    simp only [runSched] at hr
    cases ha : astep s tid a with
    | none => simp only [ha] at hr; cases hr
    | some s1 => simp only [ha] at hr; exact ih (Reach.step h ha) hr

/-- consequences of the invariant in the form the property theorems use -/
theorem Inv.freed_le_one {s : St} (h : Inv s) (b : Nat) : s.freed b ≤ 1 := by
  by_cases x : b < s.next
  · have := h.freedOnce b x
    by_cases y : s.heap b = none <;> simp only [y, if_true, if_false] at this <;> omega
  · have := (h.fresh b (by omega)).2; omega


theorem doInc_pc (s : St) (t src : Nat) : (doInc s t src).pc = s.pc := by
  simp only [doInc]; (repeat' split) <;> rfl
theorem doInc_n (s : St) (t src : Nat) : (doInc s t src).n = s.n := by
  simp only [doInc]; (repeat' split) <;> rfl
theorem doMove_pc (s : St) (d t : Nat) : (doMove s d t).pc = s.pc := rfl
theorem doMove_n (s : St) (d t : Nat) : (doMove s d t).n = s.n := rfl
theorem doMove_heap (s : St) (d t : Nat) : (doMove s d t).heap = s.heap := rfl
theorem doInc_heap_none (s : St) (t src : Nat) (h : (s.slots src).isBlk = false) : (doInc s t src).heap = s.heap := by
  simp only [doInc]
  cases hs : s.slots src <;> simp_all [Handle.isBlk]

/-! ### an API call that starts with an idle thread ends with an idle thread -/

theorem astep_pc_other {s s' : St} {tid tid2 : Nat} {a : Act} (hs : astep s tid a = some s') (hne : tid2 ≠ tid) :
    s'.pc tid2 = s.pc tid2 := by
  cases a <;> simp only [astep] at hs <;> (repeat' split at hs) <;>
    first
    | (cases hs; done)
    | (cases hs; first | rfl | (simp only [upd_other _ _ _ _ hne]) | (simp only [doInc_pc, doMove_pc]))

/-- every step except `dec` and `readRef` leaves an idle thread idle; `free` and `write` always end idle -/
def keepsIdle : Act → Bool
  | .dec _ => false
  | .readRef _ _ => false
  | _ => true

theorem astep_idle {s s' : St} {tid : Nat} {a : Act} (hs : astep s tid a = some s') (hk : keepsIdle a = true)
    (hp : s.pc tid = .idle) : s'.pc tid = .idle := by
  cases a <;> simp only [keepsIdle] at hk <;> simp only [astep, hp] at hs <;> (repeat' split at hs) <;>
    first
    | (cases hs; done)
    | (cases hs; exact hp)
    | (cases hs; simp only [doInc_pc, doMove_pc]; exact hp)
    | (cases hk; done)

theorem astep_free_idle {s s' : St} {tid : Nat} (hs : astep s tid .free = some s') : s'.pc tid = .idle := by
  simp only [astep] at hs
  (repeat' split at hs) <;> first | (cases hs; done) | (cases hs; simp only [upd_same]) | (cases hs; assumption)

theorem astep_write_idle {s s' : St} {tid : Nat} {v : List Nat} (hs : astep s tid (.write v) = some s') :
    s'.pc tid = .idle := by
  simp only [astep] at hs
  (repeat' split at hs) <;> first | (cases hs; done) | (cases hs; simp only [upd_same]) | (cases hs; assumption)

theorem astep_readRef_pc {s s' : St} {tid t : Nat} {ok : Bool} (hs : astep s tid (.readRef t ok) = some s')
    (hp : s.pc tid = .idle) : s'.pc tid = .idle ∨ ∃ t b, s'.pc tid = .writing t b := by
  simp only [astep] at hs
  (repeat' split at hs) <;>
    first
    | (cases hs; done)
    | (cases hs; left; exact hp)
    | (cases hs; right; exact ⟨_, _, upd_same _ _ _⟩)

/-- step lists in which every `dec` is directly followed by `free` and no counter is read -/
def bal : List Act → Bool
  | [] => true
  | .dec _ :: .free :: r => bal r
  | .dec _ :: _ => false
  | .readRef _ _ :: _ => false
  | _ :: r => bal r

theorem runT_bal {tid : Nat} (acts : List Act) {s s' : St} (hb : bal acts = true) (hp : s.pc tid = .idle)
    (hr : runT s tid acts = some s') : s'.pc tid = .idle := by
  induction acts using bal.induct generalizing s with
  | case1 => simp only [runT, Option.some.injEq] at hr; subst hr; exact hp
  | case2 t r ih =>
    simp only [bal] at hb
    simp only [runT] at hr
    cases h1 : astep s tid (.dec t) with
    | none => simp only [h1] at hr; cases hr
    | some s1 =>
      simp only [h1] at hr
      cases h2 : astep s1 tid .free with
      | none => simp only [h2] at hr; cases hr
      | some s2 => simp only [h2] at hr; exact ih hb (astep_free_idle h2) hr
  | case3 t r hne => simp [bal] at hb
  | case4 t ok r => simp [bal] at hb
  | case5 a r h1 h2 h3 ih =>
    have hk : keepsIdle a = true := by
      cases a <;> simp_all [keepsIdle]
    have hb' : bal r = true := by
      cases a <;> simp_all [bal]
    simp only [runT] at hr
    cases h1 : astep s tid a with
    | none => simp only [h1] at hr; cases hr
    | some s1 => simp only [h1] at hr; exact ih hb' (astep_idle h1 hk hp) hr


theorem bal_append {a b : List Act} (ha : bal a = true) (hb : bal b = true) : bal (a ++ b) = true := by
  induction a using bal.induct with
  | case1 => simpa using hb
  | case2 t r ih => simp only [bal] at ha; simp only [List.cons_append, bal]; exact ih ha
  | case3 t r hne => simp [bal] at ha
  | case4 t ok r => simp [bal] at ha
  | case5 a r h1 h2 h3 ih =>
    have hr : bal r = true := by cases a <;> simp_all [bal]
    have := ih hr
    cases a <;> simp_all [bal]

theorem bal_rel (d : Nat) : bal (rel d) = true := by simp [rel, bal]
theorem bal_shareAssign (tid d s : Nat) : bal (shareAssign tid d s) = true := by simp [shareAssign, bal]
theorem bal_cloneAllocFirst (tid d tag : Nat) (v : List Nat) (cap : Nat) : bal (cloneAllocFirst tid d tag v cap) = true := by
  simp [cloneAllocFirst, bal]
theorem bal_cloneReleaseFirst (d tag : Nat) (v : List Nat) : bal (cloneReleaseFirst d tag v) = true := by
  simp [cloneReleaseFirst, bal]

theorem bal_boxAssign (st : St) (tid d s : Nat) : bal (boxAssign st tid d s) = true := by
  simp only [boxAssign]
  split
  · rfl
  · split
    · exact bal_shareAssign _ _ _
    · exact bal_append (bal_rel _) (by simp [bal])
    · exact bal_rel _

theorem bal_relP (st : St) (tid d fuel : Nat) : bal (relP st tid d fuel) = true := by
  induction fuel generalizing d with
  | zero => exact bal_rel _
  | succ f ih =>
    simp only [relP]
    split
    · split
      · split
        · exact bal_append (ih _) (bal_rel _)
        · exact bal_rel _
      · exact bal_rel _
    · exact bal_rel _

theorem bal_ptrAssign (st : St) (tid d src : Nat) : bal (ptrAssign st tid d src) = true := by
  simp only [ptrAssign]
  split
  · split
    · exact bal_append (bal_append (by simp [bal]) (bal_relP _ _ _ _)) (by simp [bal])
    · simp [bal]
  · exact bal_relP _ _ _ _

theorem bal_ptrAssignEmb (st : St) (tid d c v : Nat) : bal (ptrAssignEmb st tid d c v) = true := by
  simp only [ptrAssignEmb]
  split
  · exact bal_append (bal_append (by simp [bal]) (bal_relP _ _ _ _)) (by simp [bal])
  · simp [bal]

theorem bal_ptrLinkSole (st : St) (tid d c src : Nat) : bal (ptrLinkSole st tid d c src) = true := by
  simp only [ptrLinkSole]
  have hf : bal ((match st.slots src with | .blk _ => [Act.inc (tmpT tid) src] | _ => []) ++ [Act.takeE (tmpU tid) c 0 d]) = true := by
    split <;> simp [bal]
  split
  · exact bal_append (bal_append hf (bal_relP _ _ _ _)) (by simp [bal])
  · exact hf

theorem runT_append {tid : Nat} (a b : List Act) {s : St} :
    runT s tid (a ++ b) = (runT s tid a).bind (fun s1 => runT s1 tid b) := by
  induction a generalizing s with
  | nil => rfl
  | cons x r ih =>
    simp only [List.cons_append, runT]
    cases astep s tid x with
    | none => rfl
    | some s1 => exact ih

/-- the `pre` phase either reads no counter (and pairs every decrement with its release) or ends with
    exactly one counter read, after which a successful read is followed by exactly the write -/
theorem pre_shape (st : St) (tid : Nat) (op : ApiOp) :
    bal (pre st tid op) = true ∨
    (∃ p d ok, bal p = true ∧ pre st tid op = p ++ [.readRef d ok] ∧
      ∀ s1, isWriting s1 tid = true → ∃ v r, post s1 tid op = .write v :: r ∧ bal r = true) := by
  have rd : ∀ (d : Nat) (ok : Bool), (∀ s1, isWriting s1 tid = true → ∃ v r, post s1 tid op = .write v :: r ∧ bal r = true) →
      ∃ p d' ok', bal p = true ∧ [Act.readRef d ok] = p ++ [.readRef d' ok'] ∧
        ∀ s1, isWriting s1 tid = true → ∃ v r, post s1 tid op = .write v :: r ∧ bal r = true :=
    fun d ok h => ⟨[], d, ok, rfl, rfl, h⟩
  cases op <;> simp only [pre]
  case sNew d bytes => left; exact bal_append (bal_rel _) (by simp [bal])
  case sLit d bytes => left; exact bal_append (bal_rel _) (by simp [bal])
  case sCopy d s =>
    left; split
    · rfl
    · apply bal_append (bal_rel _); split <;> simp [bal]
  case sAssign d s =>
    left; split
    · split
      · rfl
      · exact bal_shareAssign _ _ _
    · split
      · exact bal_rel _
      · exact bal_append (bal_rel _) (by simp [bal])
    · exact bal_append (bal_rel _) (by simp [bal])
  case sClear d => right; exact rd _ _ (fun s1 h => by simp only [post, h, if_true]; exact ⟨_, [], rfl, rfl⟩)
  case sAppend d bytes => right; exact rd _ _ (fun s1 h => by simp only [post, h, if_true]; exact ⟨_, [], rfl, rfl⟩)
  case sReserve d n => right; exact rd _ _ (fun s1 h => by simp only [post, h, if_true]; exact ⟨_, [], rfl, rfl⟩)
  case sDel d => left; exact bal_rel _
  case sPrepend d bytes =>
    right
    refine ⟨_, _, _, ?_, rfl, fun s1 h => by simp only [post, h, if_true]; exact ⟨_, rel (tmpU tid), rfl, bal_rel _⟩⟩
    split <;> simp [bal]
  case sResize d n => right; exact rd _ _ (fun s1 h => by simp only [post, h, if_true]; exact ⟨_, [], rfl, rfl⟩)
  case sEdit d k a b => right; exact rd _ _ (fun s1 h => by simp only [post, h, if_true]; exact ⟨_, [], rfl, rfl⟩)
  case sPrintf d x => right; exact rd _ _ (fun s1 h => by simp only [post, h, if_true]; exact ⟨_, [], rfl, rfl⟩)
  case sSet d bytes => left; simp [shareAssign, rel, bal]
  case vCopy d s =>
    left; split
    · rfl
    · apply bal_append (bal_rel _); split <;> simp [bal]
  case vAssign d s => left; exact bal_boxAssign _ _ _ _
  case vClear d => left; exact bal_rel _
  case vSetInt d x => left; exact bal_append (bal_rel _) (by simp [bal])
  case vSetStr d bytes => right; exact rd _ _ (fun s1 h => by simp only [post, h, if_true]; exact ⟨_, [], rfl, rfl⟩)
  case vAppStr d bytes => right; exact rd _ _ (fun s1 h => by simp only [post, h, if_true]; exact ⟨_, [], rfl, rfl⟩)
  case vPush d x => right; exact rd _ _ (fun s1 h => by simp only [post, h, if_true]; exact ⟨_, [], rfl, rfl⟩)
  case vSetList d x => right; exact rd _ _ (fun s1 h => by simp only [post, h, if_true]; exact ⟨_, [], rfl, rfl⟩)
  case vPushA d x => right; exact rd _ _ (fun s1 h => by simp only [post, h, if_true]; exact ⟨_, [], rfl, rfl⟩)
  case vSetArr d x => right; exact rd _ _ (fun s1 h => by simp only [post, h, if_true]; exact ⟨_, [], rfl, rfl⟩)
  case vPutM d k x => right; exact rd _ _ (fun s1 h => by simp only [post, h, if_true]; exact ⟨_, [], rfl, rfl⟩)
  case vSetMap d k x => right; exact rd _ _ (fun s1 h => by simp only [post, h, if_true]; exact ⟨_, [], rfl, rfl⟩)
  case vSwap a b => left; split <;> simp [bal]
  case xCopy d s =>
    left; split
    · rfl
    · apply bal_append (bal_rel _); split <;> simp [bal]
  case xAssign d s => left; exact bal_boxAssign _ _ _ _
  case xClear d => left; exact bal_rel _
  case xSetStr d bytes => right; exact rd _ _ (fun s1 h => by simp only [post, h, if_true]; exact ⟨_, [], rfl, rfl⟩)
  case xElem d bytes => right; exact rd _ _ (fun s1 h => by simp only [post, h, if_true]; exact ⟨_, [], rfl, rfl⟩)
  case pNew d x => left; exact bal_append (bal_append (by simp [bal]) (bal_relP _ _ _ _)) (by simp [bal])
  case pCopy d s =>
    left; split
    · rfl
    · apply bal_append (bal_relP _ _ _ _); split <;> simp [bal]
  case pAssign d s => left; exact bal_ptrAssign _ _ _ _
  case pClear d => left; exact bal_relP _ _ _ _
  case pSwap a b => left; simp [bal]
  case pLink d s => left; split <;> first | exact bal_ptrLinkSole _ _ _ _ _ | exact bal_ptrAssign _ _ _ _ | simp [bal]
  case pNext d => left; split <;> first | exact bal_ptrAssignEmb _ _ _ _ _ | simp [bal]
  case pNextOf d s => left; split <;> first | exact bal_ptrAssignEmb _ _ _ _ _ | simp [bal]
  case gNew d tag inl val cap => left; apply bal_append (bal_rel _); split <;> simp [bal]
  case gEdit d skip nv =>
    cases skip
    · right; exact rd _ _ (fun s1 h => by simp only [post, h, if_true]; exact ⟨_, [], rfl, rfl⟩)
    · left; rfl

/-- without a successful counter read the `post` phase pairs every decrement with its release -/
theorem post_bal (s1 : St) (tid : Nat) (op : ApiOp) (hw : isWriting s1 tid = false) : bal (post s1 tid op) = true := by
  cases op <;> simp only [post, hw, Bool.false_eq_true, if_false] <;> try rfl
  case gEdit d skip nv => cases skip <;> rfl
  case vSwap a b =>
    apply bal_append (bal_append (bal_boxAssign _ _ _ _) _) (bal_rel _)
    split
    · exact bal_shareAssign _ _ _
    · exact bal_append (bal_rel _) (by simp [bal])
    · exact bal_rel _
  case xElem d bytes =>
    split
    · exact bal_cloneAllocFirst _ _ _ _ _
    · exact bal_cloneReleaseFirst _ _ _

theorem apiStep_idle {s s' : St} {tid : Nat} {op : ApiOp} (hp : s.pc tid = .idle)
    (hr : apiStep s tid op = some s') : s'.pc tid = .idle := by
  simp only [apiStep] at hr
  cases h1 : runT s tid (pre s tid op) with
  | none => simp only [h1] at hr; cases hr
  | some s1 =>
    simp only [h1] at hr
    rcases pre_shape s tid op with hb | ⟨p, d, ok, hbp, hpre, hpost⟩
    · have hi := runT_bal _ hb hp h1
      have hw : isWriting s1 tid = false := by simp [isWriting, hi]
      exact runT_bal _ (post_bal s1 tid op hw) hi hr
    · rw [hpre, runT_append] at h1
      cases h0 : runT s tid p with
      | none => simp only [h0, Option.bind] at h1; cases h1
      | some s0 =>
        simp only [h0, Option.bind, runT] at h1
        have hi0 := runT_bal _ hbp hp h0
        cases h2 : astep s0 tid (.readRef d ok) with
        | none => simp only [h2] at h1; cases h1
        | some s2 =>
          simp only [h2, Option.some.injEq] at h1
          subst h1
          rcases astep_readRef_pc h2 hi0 with hi | ⟨t, b, hwr⟩
          · have hw : isWriting s2 tid = false := by simp [isWriting, hi]
            exact runT_bal _ (post_bal s2 tid op hw) hi hr
          · have hw : isWriting s2 tid = true := by simp [isWriting, hwr]
            obtain ⟨v, r, hv, hbr⟩ := hpost s2 hw
            rw [hv] at hr
            simp only [runT] at hr
            cases h3 : astep s2 tid (.write v) with
            | none => simp only [h3] at hr; cases hr
            | some s3 =>
              simp only [h3] at hr
              exact runT_bal _ hbr (astep_write_idle h3) hr

theorem runT_pc_other {tid tid2 : Nat} (acts : List Act) {s s' : St} (hr : runT s tid acts = some s')
    (hne : tid2 ≠ tid) : s'.pc tid2 = s.pc tid2 := by
  induction acts generalizing s with
  | nil => simp only [runT, Option.some.injEq] at hr; subst hr; rfl
  | cons a r ih =>
    simp only [runT] at hr
    cases ha : astep s tid a with
    | none => simp only [ha] at hr; cases hr
    | some s1 => simp only [ha] at hr; rw [ih hr, astep_pc_other ha hne]

/-- all threads idle: the state between two API calls of a single-threaded history -/
def Quiet (s : St) : Prop := ∀ tid, s.pc tid = .idle

theorem quiet_apiStep {s s' : St} {tid : Nat} {op : ApiOp} (hq : Quiet s) (hr : apiStep s tid op = some s') :
    Quiet s' := by
  intro tid2
  by_cases e : tid2 = tid
  · subst e; exact apiStep_idle (hq _) hr
  · simp only [apiStep] at hr
    cases h1 : runT s tid (pre s tid op) with
    | none => simp only [h1] at hr; cases hr
    | some s1 =>
      simp only [h1] at hr
      rw [runT_pc_other _ hr e, runT_pc_other _ h1 e]; exact hq _

theorem quiet_apiRun {tid : Nat} (ops : List ApiOp) {s s' : St} (hq : Quiet s) (hr : apiRun s tid ops = some s') :
    Quiet s' := by
  induction ops generalizing s with
  | nil => simp only [apiRun, Option.some.injEq] at hr; subst hr; exact hq
  | cons op r ih =>
    simp only [apiRun] at hr
    cases ha : apiStep s tid op with
    | none => simp only [ha] at hr; cases hr
    | some s1 => simp only [ha] at hr; exact ih (quiet_apiStep hq ha) hr


theorem astep_n {s s' : St} {tid : Nat} {a : Act} (hs : astep s tid a = some s') : s'.n = s.n := by
  cases a <;> simp only [astep] at hs <;> (repeat' split at hs) <;>
    first
    | (cases hs; done)
    | (cases hs; rfl)
    | (cases hs; simp only [doInc_n, doMove_n])

theorem reach_n {n : Nat} {s : St} (h : Reach n s) : s.n = n := by
  induction h with
  | init => rfl
  | step _ hs ih => rw [astep_n hs]; exact ih

/-! ### the content seen through a handle changes only by a write through that very handle -/

theorem content_stable {s s' : St} {tid : Nat} {a : Act} {v b : Nat} {blk : Block} (h : Inv s)
    (hs : astep s tid a = some s') (hv : v < s.n) (hsl : s.slots v = .blk b) (hb : s.heap b = some blk)
    (hnw : ∀ t b', s.pc tid = .writing t b' → t ≠ v) :
    ∃ blk', s'.heap b = some blk' ∧ blk'.tag = blk.tag ∧ blk'.val = blk.val ∧ blk'.cap = blk.cap := by
  have same : ∀ {x : St}, x.heap = s.heap → ∃ blk', x.heap b = some blk' ∧ blk'.tag = blk.tag ∧ blk'.val = blk.val ∧ blk'.cap = blk.cap := by
    intro x hx; rw [hx]; exact ⟨blk, hb, rfl, rfl, rfl⟩
  have refupd : ∀ (b0 : Nat) (blk0 : Block) (r : Nat), s.heap b0 = some blk0 →
      ∃ blk', upd s.heap b0 (some { blk0 with ref := r }) b = some blk' ∧ blk'.tag = blk.tag ∧ blk'.val = blk.val ∧ blk'.cap = blk.cap := by
    intro b0 blk0 r h0
    by_cases e : b = b0
    · subst e; rw [hb] at h0; injection h0 with h0; subst h0
      exact ⟨_, upd_same _ _ _, rfl, rfl, rfl⟩
    · rw [upd_other _ _ _ _ e]; exact ⟨blk, hb, rfl, rfl, rfl⟩
  have incC : ∀ (t src : Nat), ∃ blk', (doInc s t src).heap b = some blk' ∧ blk'.tag = blk.tag ∧ blk'.val = blk.val ∧ blk'.cap = blk.cap := by
    intro t src
    simp only [doInc]
    cases hsrc : s.slots src with
    | none => exact same rfl
    | inl tag val => exact same rfl
    | blk b0 =>
      cases h0 : s.heap b0 with
      | none => simp only [h0]; exact same rfl
      | some blk0 => simp only [h0]; exact refupd b0 blk0 _ h0
  cases a with
  | inc t src =>
    simp only [astep] at hs
    split at hs
    case isFalse => cases hs
    case isTrue hc => cases hs; exact incC t src
  | incE t c k v =>
    simp only [astep] at hs
    split at hs
    case isFalse => cases hs
    case isTrue hc => cases hs; exact incC t _
  | takeE t c k v =>
    simp only [astep] at hs
    split at hs <;> first | (cases hs; done) | (cases hs; exact same rfl)
  | putE c k t v =>
    simp only [astep] at hs
    split at hs <;> first | (cases hs; done) | (cases hs; exact same rfl)
  | takeF t c k =>
    simp only [astep] at hs
    split at hs <;> first | (cases hs; done) | (cases hs; exact same rfl)
  | adoptF c k =>
    simp only [astep] at hs
    split at hs <;> first | (cases hs; done) | (cases hs; exact same rfl)
  | dec t =>
    simp only [astep] at hs
    split at hs
    case isFalse => cases hs
    case isTrue hc =>
      cases hst : s.slots t with
      | none => simp only [hst] at hs; cases hs; exact same rfl
      | inl tag val => simp only [hst] at hs; cases hs; exact same rfl
      | blk b0 =>
        cases h0 : s.heap b0 with
        | none => simp only [hst, h0] at hs; cases hs; exact same rfl
        | some blk0 =>
          simp only [hst, h0] at hs
          split at hs
          · cases hs; exact same rfl
          · cases hs; exact refupd b0 blk0 _ h0
  | free =>
    simp only [astep] at hs
    cases hpc : s.pc tid with
    | idle => simp only [hpc] at hs; cases hs; exact same rfl
    | writing t b0 => simp only [hpc] at hs; cases hs
    | freeing b0 =>
      obtain ⟨⟨blk0, h0, hz⟩, _⟩ := h.freeing tid b0 hpc
      simp only [hpc, h0] at hs; cases hs
      have e : b ≠ b0 := by
        intro e; subst e
        have := handles_pos _ _ _ _ hv hsl
        have := h.cnt b blk0 h0
        simp only [handles] at this; omega
      simp only [upd_other _ _ _ _ e]; exact ⟨blk, hb, rfl, rfl, rfl⟩
  | alloc t tag val cap =>
    simp only [astep] at hs
    split at hs
    case isFalse => cases hs
    case isTrue hc =>
      cases hs
      have e : b ≠ s.next := by
        intro e; subst e
        have := (h.fresh s.next (Nat.le_refl _)).1
        rw [hb] at this; cases this
      simp only [upd_other _ _ _ _ e]; exact ⟨blk, hb, rfl, rfl, rfl⟩
  | readRef t ok =>
    simp only [astep] at hs
    (repeat' split at hs) <;> first | (cases hs; done) | (cases hs; exact same rfl)
  | write val =>
    simp only [astep] at hs
    cases hpc : s.pc tid with
    | idle => simp only [hpc] at hs; cases hs; exact same rfl
    | freeing b0 => simp only [hpc] at hs; cases hs
    | writing t b0 =>
      obtain ⟨ht, _, hst, blk0, h0, hr1⟩ := h.writing tid t b0 hpc
      simp only [hpc, h0] at hs; cases hs
      have e : b ≠ b0 := by
        intro e; subst e
        have := sole_handle s.n s.slots t v b ht hv (Ne.symm (hnw t b hpc)) hst hsl
        have := h.cnt b blk0 h0
        simp only [handles] at this; omega
      simp only [upd_other _ _ _ _ e]; exact ⟨blk, hb, rfl, rfl, rfl⟩
  | move d t =>
    simp only [astep] at hs
    split at hs <;> first | (cases hs; done) | (cases hs; exact same rfl)
  | swap a c =>
    simp only [astep] at hs
    split at hs <;> first | (cases hs; done) | (cases hs; exact same rfl)
  | setInl d tag val =>
    simp only [astep] at hs
    split at hs <;> first | (cases hs; done) | (cases hs; exact same rfl)
  | give x tid' =>
    simp only [astep] at hs
    split at hs <;> first | (cases hs; done) | (cases hs; exact same rfl)
  | clr t =>
    simp only [astep] at hs
    split at hs <;> first | (cases hs; done) | (cases hs; exact same rfl)


/-! ### handles embedded in payloads -/

theorem handlesOf_split (n a : Nat) (slots : Nat → Handle) (b : Nat) (h : a ≤ n) :
    handlesOf n slots b = handlesOf a slots b + (List.range' a (n - a)).countP (fun v => slots v == Handle.blk b) := by
  unfold handlesOf
  have : List.range n = List.range a ++ List.range' a (n - a) := by
    rw [List.range_eq_range', List.range_eq_range']
    have e := List.range'_append_1 (s := 0) (m := a) (n := n - a)
    rw [Nat.zero_add] at e
    rw [e]; congr 1; omega
  rw [this, List.countP_append]

/-- which slots a step of thread `tid` can change: its own ones, and the embedded slot of a block through
    the three exclusive embedded-handle steps -/
theorem astep_slots_other {s s' : St} {tid x : Nat} {a : Act} (hs : astep s tid a = some s') (hx : s.owner x ≠ tid) :
    s'.slots x = s.slots x ∨ (∃ t c k v, (a = .takeE t c k v ∨ a = .putE c k t v) ∧ x = embSlotK c k) ∨
      (∃ t c k, a = .takeF t c k ∧ x = embSlotK c k) := by
  have updne : ∀ (f : Nat → Handle) (t : Nat) (h : Handle), s.owner t = tid → upd f t h x = f x := by
    intro f t h ho
    have : x ≠ t := by intro e; subst e; exact hx ho
    exact upd_other _ _ _ _ this
  have incC : ∀ (t src : Nat), s.owner t = tid → (doInc s t src).slots x = s.slots x := by
    intro t src ho
    simp only [doInc]
    (repeat' split) <;> first | rfl | exact updne _ _ _ ho
  cases a with
  | inc t src =>
    simp only [astep] at hs; split at hs
    case isFalse => cases hs
    case isTrue hc => cases hs; left; exact incC _ _ hc.2.2.1
  | incE t c k v =>
    simp only [astep] at hs; split at hs
    case isFalse => cases hs
    case isTrue hc => cases hs; left; exact incC _ _ hc.2.2.1
  | adoptF c k => simp only [astep] at hs; split at hs <;> first | (cases hs; done) | (cases hs; left; rfl)
  | dec t =>
    simp only [astep] at hs; split at hs
    case isFalse => cases hs
    case isTrue hc =>
      (repeat' split at hs) <;> first | (cases hs; left; rfl) | (cases hs; left; exact updne _ _ _ hc.2.1)
  | free => simp only [astep] at hs; (repeat' split at hs) <;> first | (cases hs; done) | (cases hs; left; rfl)
  | alloc t tag val cap =>
    simp only [astep] at hs; split at hs
    case isFalse => cases hs
    case isTrue hc => cases hs; left; exact updne _ _ _ hc.2.1
  | readRef t ok => simp only [astep] at hs; (repeat' split at hs) <;> first | (cases hs; done) | (cases hs; left; rfl)
  | write val => simp only [astep] at hs; (repeat' split at hs) <;> first | (cases hs; done) | (cases hs; left; rfl)
  | move d t =>
    simp only [astep] at hs; split at hs
    case isFalse => cases hs
    case isTrue hc =>
      cases hs; left; simp only [doMove]
      rw [updne _ _ _ hc.2.2.2.2.1, updne _ _ _ hc.2.2.2.1]
  | swap a c =>
    simp only [astep] at hs; split at hs
    case isFalse => cases hs
    case isTrue hc =>
      cases hs; left
      show upd (upd s.slots a (s.slots c)) c (s.slots a) x = s.slots x
      rw [updne _ _ _ hc.2.2.2.1, updne _ _ _ hc.2.2.1]
  | setInl d tag val =>
    simp only [astep] at hs; split at hs
    case isFalse => cases hs
    case isTrue hc => cases hs; left; exact updne _ _ _ hc.2.1
  | give v tid' => simp only [astep] at hs; split at hs <;> first | (cases hs; done) | (cases hs; left; rfl)
  | clr t => simp only [astep] at hs; split at hs <;> first | (cases hs; done) | (cases hs; left; rfl)
  | takeE t c k v =>
    by_cases e : x = embSlotK c k
    · right; left; exact ⟨t, c, k, v, Or.inl rfl, e⟩
    · simp only [astep] at hs; split at hs
      case isFalse => cases hs
      case isTrue hc =>
        cases hs; left; simp only [doMove]
        rw [upd_other _ _ _ _ e, updne _ _ _ hc.2.2.2.1]
  | putE c k t v =>
    by_cases e : x = embSlotK c k
    · right; left; exact ⟨t, c, k, v, Or.inr rfl, e⟩
    · simp only [astep] at hs; split at hs
      case isFalse => cases hs
      case isTrue hc =>
        cases hs; left; simp only [doMove]
        rw [updne _ _ _ hc.2.2.2.1, upd_other _ _ _ _ e]
  | takeF t c k =>
    by_cases e : x = embSlotK c k
    · right; right; exact ⟨t, c, k, rfl, e⟩
    · simp only [astep] at hs; split at hs
      case isFalse => cases hs
      case isTrue hc =>
        cases hs; left; simp only [doMove]
        rw [upd_other _ _ _ _ e, updne _ _ _ hc.2.2.2.1]

end Nstd.Rc
