import Nstd.Rc.Total
/-
  Use of a handle after its reference was dropped.

  In the model `dec t` drops the reference AND forgets the pointer (slot t becomes empty), while in the C++
  code the pointer keeps sitting in the handle object until it is overwritten (`data = otherData`,
  `data = &emptyData`, a constructor) or for ever (destructor).  A call that dropped the reference first and
  read the handle afterwards (the release-before-acquire order of a self-assignment, `cur = cur->next` reading
  `next` from the node it just released) would therefore look harmless in the model.  This file instruments
  the step sequences: `stale x = some b` from the `dec` through slot x until a step overwrites the slot; a
  step that READS a stale slot (copies it, dereferences it, releases it again, moves it) is a `misuse`.
  `no_use_after_drop`: the step lists of the String / Variant / Xml::Variant calls never do that.
-/
namespace Nstd.Rc

/-- slots whose pointer value a step reads -/
def reads : Act → List Nat
  | .inc _ src => [src]
  | .dec t => [t]
  | .readRef t _ => [t]
  | .move _ t => [t]
  | .swap a b => [a, b]
  | .give v _ => [v]
  | .incE _ _ _ v => [v]
  | .takeE _ _ _ v => [v]
  | .putE _ _ t v => [t, v]
  | _ => []

/-- slots a step overwrites (the old pointer is gone afterwards) -/
def overwrites : Act → List Nat
  | .inc t _ => [t]
  | .alloc t _ _ _ => [t]
  | .move d _ => [d]
  | .setInl d _ _ => [d]
  | .clr t => [t]
  | .incE t _ _ _ => [t]
  | .takeE t _ _ _ => [t]
  | .takeF t _ _ => [t]
  | _ => []

structure Gh where
  stale : Nat → Option Nat
  misuse : Nat

def gh0 : Gh := ⟨fun _ => none, 0⟩

/-- instrumentation of one step taken in state s -/
def gstep (g : Gh) (s : St) (a : Act) : Gh :=
  let bad := (reads a).any (fun x => (g.stale x).isSome)
  let st1 : Nat → Option Nat := fun x => if x ∈ overwrites a then none else g.stale x
  let st2 : Nat → Option Nat := match a with
    | .dec t => (match s.slots t with | .blk b => upd st1 t (some b) | _ => st1)
    | _ => st1
  ⟨st2, g.misuse + (if bad then 1 else 0)⟩

def runTG (s : St) (g : Gh) (tid : Nat) : List Act → Option (St × Gh)
  | [] => some (s, g)
  | a :: r => match astep s tid a with
    | some s' => runTG s' (gstep g s a) tid r
    | none => none

def apiStepG (s : St) (g : Gh) (tid : Nat) (op : ApiOp) : Option (St × Gh) :=
  match runTG s g tid (pre s tid op) with
  | some (s1, g1) => runTG s1 g1 tid (post s1 tid op)
  | none => none

def apiRunG (s : St) (g : Gh) (tid : Nat) : List ApiOp → Option (St × Gh)
  | [] => some (s, g)
  | op :: r => match apiStepG s g tid op with
    | some (s', g') => apiRunG s' g' tid r
    | none => none

/-- the instrumented run is the plain run plus the ghost -/
theorem runTG_fst {tid : Nat} (acts : List Act) {s : St} {g : Gh} :
    (runTG s g tid acts).map (·.1) = runT s tid acts := by
  induction acts generalizing s g with
  | nil => rfl
  | cons a r ih =>
    simp only [runTG, runT]
    cases astep s tid a with
    | none => rfl
    | some s' => exact ih

/-- syntactic check of a step list: D = slots that may be stale -/
def staleStep (D : List Nat) (a : Act) : Option (List Nat) :=
  if (reads a).any (fun x => x ∈ D) then none
  else
    let D1 := D.filter (fun x => x ∉ overwrites a)
    some (match a with | .dec t => t :: D1 | _ => D1)

def staleOk (D : List Nat) : List Act → Option (List Nat)
  | [] => some D
  | a :: r => match staleStep D a with
    | some D' => staleOk D' r
    | none => none

theorem staleStep_sound {D D' : List Nat} {g : Gh} {s : St} {a : Act}
    (hD : ∀ x, (g.stale x).isSome = true → x ∈ D) (h : staleStep D a = some D') :
    (gstep g s a).misuse = g.misuse ∧ ∀ x, ((gstep g s a).stale x).isSome = true → x ∈ D' := by
  simp only [staleStep] at h
  split at h
  case isTrue => cases h
  case isFalse hr =>
    have hbad : (reads a).any (fun x => (g.stale x).isSome) = false := by
      rw [Bool.eq_false_iff]
      intro hb
      apply hr
      rw [List.any_eq_true] at hb ⊢
      obtain ⟨x, hx, hs⟩ := hb
      exact ⟨x, hx, by simpa using hD x hs⟩
    refine ⟨by simp only [gstep, hbad]; simp, ?_⟩
    have base : ∀ x, (if x ∈ overwrites a then none else g.stale x).isSome = true →
        x ∈ D.filter (fun x => x ∉ overwrites a) := by
      intro x hx
      by_cases e : x ∈ overwrites a
      · simp [e] at hx
      · simp only [e, if_false] at hx
        simp only [List.mem_filter, decide_not, Bool.not_eq_eq_eq_not, Bool.not_true, decide_eq_false_iff_not]
        exact ⟨hD x hx, e⟩
    cases a <;> simp only [Option.some.injEq] at h <;> subst h <;> intro x hx <;> simp only [gstep] at hx
    case dec t =>
      by_cases e : x = t
      · subst e; exact List.mem_cons_self ..
      · apply List.mem_cons_of_mem
        apply base
        cases hsl : s.slots t <;> simp only [hsl] at hx
        · exact hx
        · exact hx
        · rw [upd_other _ _ _ _ e] at hx; exact hx
    all_goals exact base x hx

theorem staleOk_sound {tid : Nat} (acts : List Act) {D D' : List Nat} {g g' : Gh} {s s' : St}
    (hD : ∀ x, (g.stale x).isSome = true → x ∈ D) (h : staleOk D acts = some D')
    (hr : runTG s g tid acts = some (s', g')) :
    g'.misuse = g.misuse ∧ ∀ x, (g'.stale x).isSome = true → x ∈ D' := by
  induction acts generalizing D g s with
  | nil =>
    simp only [staleOk, Option.some.injEq] at h
    simp only [runTG, Option.some.injEq, Prod.mk.injEq] at hr
    obtain ⟨_, hg⟩ := hr
    subst h; subst hg
    exact ⟨rfl, hD⟩
  | cons a r ih =>
    simp only [staleOk] at h
    simp only [runTG] at hr
    cases h1 : staleStep D a with
    | none => simp only [h1] at h; cases h
    | some D1 =>
      simp only [h1] at h
      cases h2 : astep s tid a with
      | none => simp only [h2] at hr; cases hr
      | some s1 =>
        simp only [h2] at hr
        obtain ⟨hm, hs⟩ := staleStep_sound (s := s) hD h1
        obtain ⟨hm', hs'⟩ := ih hs h hr
        exact ⟨by rw [hm', hm], hs'⟩

macro "staleauto" : tactic =>
  `(tactic| (
    (repeat' split) <;>
    simp [staleOk, staleStep, reads, overwrites, rel, shareAssign, cloneAllocFirst, cloneReleaseFirst, tmpU, tmpT, nVars, *] <;>
    (try omega)))

/-- the step lists of the String / Variant / Xml::Variant calls never read a handle between the decrement
    through it and the store that overwrites it, and leave no stale pointer behind -/
theorem flat_stale_ok (tid : Nat) (op : ApiOp) (htid : tid < nThreads) (hf : flatOp op = true) (hi : idxOk op) :
    (∀ st, staleOk [] (pre st tid op) = some []) ∧ (∀ s1, staleOk [] (post s1 tid op) = some []) := by
  simp only [nThreads] at htid
  cases op <;> simp only [flatOp, Bool.false_eq_true] at hf <;> simp only [idxOk, nVars] at hi
  case sNew d bytes =>
    have e1 : ¬ 16 + 2 * tid = d := by omega
    have e2 : ¬ 16 + 2 * tid + 1 = d := by omega
    have e3 : ¬ d = 16 + 2 * tid := by omega
    have e4 : ¬ d = 16 + 2 * tid + 1 := by omega
    refine ⟨fun st => ?_, fun s1 => ?_⟩
    · simp only [pre, boxAssign]; staleauto
    · simp only [post, boxAssign]; staleauto
  case sLit d bytes =>
    have e1 : ¬ 16 + 2 * tid = d := by omega
    have e2 : ¬ 16 + 2 * tid + 1 = d := by omega
    have e3 : ¬ d = 16 + 2 * tid := by omega
    have e4 : ¬ d = 16 + 2 * tid + 1 := by omega
    refine ⟨fun st => ?_, fun s1 => ?_⟩
    · simp only [pre, boxAssign]; staleauto
    · simp only [post, boxAssign]; staleauto
  case sClear d =>
    have e1 : ¬ 16 + 2 * tid = d := by omega
    have e2 : ¬ 16 + 2 * tid + 1 = d := by omega
    have e3 : ¬ d = 16 + 2 * tid := by omega
    have e4 : ¬ d = 16 + 2 * tid + 1 := by omega
    refine ⟨fun st => ?_, fun s1 => ?_⟩
    · simp only [pre, boxAssign]; staleauto
    · simp only [post, boxAssign]; staleauto
  case sAppend d bytes =>
    have e1 : ¬ 16 + 2 * tid = d := by omega
    have e2 : ¬ 16 + 2 * tid + 1 = d := by omega
    have e3 : ¬ d = 16 + 2 * tid := by omega
    have e4 : ¬ d = 16 + 2 * tid + 1 := by omega
    refine ⟨fun st => ?_, fun s1 => ?_⟩
    · simp only [pre, boxAssign]; staleauto
    · simp only [post, boxAssign]; staleauto
  case sReserve d k =>
    have e1 : ¬ 16 + 2 * tid = d := by omega
    have e2 : ¬ 16 + 2 * tid + 1 = d := by omega
    have e3 : ¬ d = 16 + 2 * tid := by omega
    have e4 : ¬ d = 16 + 2 * tid + 1 := by omega
    refine ⟨fun st => ?_, fun s1 => ?_⟩
    · simp only [pre, boxAssign]; staleauto
    · simp only [post, boxAssign]; staleauto
  case sDel d =>
    have e1 : ¬ 16 + 2 * tid = d := by omega
    have e2 : ¬ 16 + 2 * tid + 1 = d := by omega
    have e3 : ¬ d = 16 + 2 * tid := by omega
    have e4 : ¬ d = 16 + 2 * tid + 1 := by omega
    refine ⟨fun st => ?_, fun s1 => ?_⟩
    · simp only [pre, boxAssign]; staleauto
    · simp only [post, boxAssign]; staleauto
  case sSet d bytes =>
    have e1 : ¬ 16 + 2 * tid = d := by omega
    have e2 : ¬ 16 + 2 * tid + 1 = d := by omega
    have e3 : ¬ d = 16 + 2 * tid := by omega
    have e4 : ¬ d = 16 + 2 * tid + 1 := by omega
    refine ⟨fun st => ?_, fun s1 => ?_⟩
    · simp only [pre, boxAssign]; staleauto
    · simp only [post, boxAssign]; staleauto
  case sPrepend d bytes =>
    have e1 : ¬ 16 + 2 * tid = d := by omega
    have e2 : ¬ 16 + 2 * tid + 1 = d := by omega
    have e3 : ¬ d = 16 + 2 * tid := by omega
    have e4 : ¬ d = 16 + 2 * tid + 1 := by omega
    refine ⟨fun st => ?_, fun s1 => ?_⟩
    · simp only [pre, boxAssign]; staleauto
    · simp only [post, boxAssign]; staleauto
  case sResize d k =>
    have e1 : ¬ 16 + 2 * tid = d := by omega
    have e2 : ¬ 16 + 2 * tid + 1 = d := by omega
    have e3 : ¬ d = 16 + 2 * tid := by omega
    have e4 : ¬ d = 16 + 2 * tid + 1 := by omega
    refine ⟨fun st => ?_, fun s1 => ?_⟩
    · simp only [pre, boxAssign]; staleauto
    · simp only [post, boxAssign]; staleauto
  case sEdit d k a b =>
    have e1 : ¬ 16 + 2 * tid = d := by omega
    have e2 : ¬ 16 + 2 * tid + 1 = d := by omega
    have e3 : ¬ d = 16 + 2 * tid := by omega
    have e4 : ¬ d = 16 + 2 * tid + 1 := by omega
    refine ⟨fun st => ?_, fun s1 => ?_⟩
    · simp only [pre, boxAssign]; staleauto
    · simp only [post, boxAssign]; staleauto
  case sPrintf d x =>
    have e1 : ¬ 16 + 2 * tid = d := by omega
    have e2 : ¬ 16 + 2 * tid + 1 = d := by omega
    have e3 : ¬ d = 16 + 2 * tid := by omega
    have e4 : ¬ d = 16 + 2 * tid + 1 := by omega
    refine ⟨fun st => ?_, fun s1 => ?_⟩
    · simp only [pre, boxAssign]; staleauto
    · simp only [post, boxAssign]; staleauto
  case gNew d tag inl val cap =>
    have e1 : ¬ 16 + 2 * tid = d := by omega
    have e2 : ¬ 16 + 2 * tid + 1 = d := by omega
    have e3 : ¬ d = 16 + 2 * tid := by omega
    have e4 : ¬ d = 16 + 2 * tid + 1 := by omega
    refine ⟨fun st => ?_, fun s1 => ?_⟩
    · simp only [pre, boxAssign]; staleauto
    · simp only [post, boxAssign]; staleauto
  case gEdit d skip nv =>
    have e1 : ¬ 16 + 2 * tid = d := by omega
    have e2 : ¬ 16 + 2 * tid + 1 = d := by omega
    have e3 : ¬ d = 16 + 2 * tid := by omega
    have e4 : ¬ d = 16 + 2 * tid + 1 := by omega
    refine ⟨fun st => ?_, fun s1 => ?_⟩
    · simp only [pre, boxAssign]; staleauto
    · simp only [post, boxAssign]; staleauto
  case vClear d =>
    have e1 : ¬ 16 + 2 * tid = d := by omega
    have e2 : ¬ 16 + 2 * tid + 1 = d := by omega
    have e3 : ¬ d = 16 + 2 * tid := by omega
    have e4 : ¬ d = 16 + 2 * tid + 1 := by omega
    refine ⟨fun st => ?_, fun s1 => ?_⟩
    · simp only [pre, boxAssign]; staleauto
    · simp only [post, boxAssign]; staleauto
  case vSetInt d x =>
    have e1 : ¬ 16 + 2 * tid = d := by omega
    have e2 : ¬ 16 + 2 * tid + 1 = d := by omega
    have e3 : ¬ d = 16 + 2 * tid := by omega
    have e4 : ¬ d = 16 + 2 * tid + 1 := by omega
    refine ⟨fun st => ?_, fun s1 => ?_⟩
    · simp only [pre, boxAssign]; staleauto
    · simp only [post, boxAssign]; staleauto
  case vSetStr d bytes =>
    have e1 : ¬ 16 + 2 * tid = d := by omega
    have e2 : ¬ 16 + 2 * tid + 1 = d := by omega
    have e3 : ¬ d = 16 + 2 * tid := by omega
    have e4 : ¬ d = 16 + 2 * tid + 1 := by omega
    refine ⟨fun st => ?_, fun s1 => ?_⟩
    · simp only [pre, boxAssign]; staleauto
    · simp only [post, boxAssign]; staleauto
  case vAppStr d bytes =>
    have e1 : ¬ 16 + 2 * tid = d := by omega
    have e2 : ¬ 16 + 2 * tid + 1 = d := by omega
    have e3 : ¬ d = 16 + 2 * tid := by omega
    have e4 : ¬ d = 16 + 2 * tid + 1 := by omega
    refine ⟨fun st => ?_, fun s1 => ?_⟩
    · simp only [pre, boxAssign]; staleauto
    · simp only [post, boxAssign]; staleauto
  case vPush d x =>
    have e1 : ¬ 16 + 2 * tid = d := by omega
    have e2 : ¬ 16 + 2 * tid + 1 = d := by omega
    have e3 : ¬ d = 16 + 2 * tid := by omega
    have e4 : ¬ d = 16 + 2 * tid + 1 := by omega
    refine ⟨fun st => ?_, fun s1 => ?_⟩
    · simp only [pre, boxAssign]; staleauto
    · simp only [post, boxAssign]; staleauto
  case vSetList d x =>
    have e1 : ¬ 16 + 2 * tid = d := by omega
    have e2 : ¬ 16 + 2 * tid + 1 = d := by omega
    have e3 : ¬ d = 16 + 2 * tid := by omega
    have e4 : ¬ d = 16 + 2 * tid + 1 := by omega
    refine ⟨fun st => ?_, fun s1 => ?_⟩
    · simp only [pre, boxAssign]; staleauto
    · simp only [post, boxAssign]; staleauto
  case vPushA d x =>
    have e1 : ¬ 16 + 2 * tid = d := by omega
    have e2 : ¬ 16 + 2 * tid + 1 = d := by omega
    have e3 : ¬ d = 16 + 2 * tid := by omega
    have e4 : ¬ d = 16 + 2 * tid + 1 := by omega
    refine ⟨fun st => ?_, fun s1 => ?_⟩
    · simp only [pre, boxAssign]; staleauto
    · simp only [post, boxAssign]; staleauto
  case vSetArr d x =>
    have e1 : ¬ 16 + 2 * tid = d := by omega
    have e2 : ¬ 16 + 2 * tid + 1 = d := by omega
    have e3 : ¬ d = 16 + 2 * tid := by omega
    have e4 : ¬ d = 16 + 2 * tid + 1 := by omega
    refine ⟨fun st => ?_, fun s1 => ?_⟩
    · simp only [pre, boxAssign]; staleauto
    · simp only [post, boxAssign]; staleauto
  case vPutM d k x =>
    have e1 : ¬ 16 + 2 * tid = d := by omega
    have e2 : ¬ 16 + 2 * tid + 1 = d := by omega
    have e3 : ¬ d = 16 + 2 * tid := by omega
    have e4 : ¬ d = 16 + 2 * tid + 1 := by omega
    refine ⟨fun st => ?_, fun s1 => ?_⟩
    · simp only [pre, boxAssign]; staleauto
    · simp only [post, boxAssign]; staleauto
  case vSetMap d k x =>
    have e1 : ¬ 16 + 2 * tid = d := by omega
    have e2 : ¬ 16 + 2 * tid + 1 = d := by omega
    have e3 : ¬ d = 16 + 2 * tid := by omega
    have e4 : ¬ d = 16 + 2 * tid + 1 := by omega
    refine ⟨fun st => ?_, fun s1 => ?_⟩
    · simp only [pre, boxAssign]; staleauto
    · simp only [post, boxAssign]; staleauto
  case xClear d =>
    have e1 : ¬ 16 + 2 * tid = d := by omega
    have e2 : ¬ 16 + 2 * tid + 1 = d := by omega
    have e3 : ¬ d = 16 + 2 * tid := by omega
    have e4 : ¬ d = 16 + 2 * tid + 1 := by omega
    refine ⟨fun st => ?_, fun s1 => ?_⟩
    · simp only [pre, boxAssign]; staleauto
    · simp only [post, boxAssign]; staleauto
  case xSetStr d bytes =>
    have e1 : ¬ 16 + 2 * tid = d := by omega
    have e2 : ¬ 16 + 2 * tid + 1 = d := by omega
    have e3 : ¬ d = 16 + 2 * tid := by omega
    have e4 : ¬ d = 16 + 2 * tid + 1 := by omega
    refine ⟨fun st => ?_, fun s1 => ?_⟩
    · simp only [pre, boxAssign]; staleauto
    · simp only [post, boxAssign]; staleauto
  case xElem d bytes =>
    have e1 : ¬ 16 + 2 * tid = d := by omega
    have e2 : ¬ 16 + 2 * tid + 1 = d := by omega
    have e3 : ¬ d = 16 + 2 * tid := by omega
    have e4 : ¬ d = 16 + 2 * tid + 1 := by omega
    refine ⟨fun st => ?_, fun s1 => ?_⟩
    · simp only [pre, boxAssign]; staleauto
    · simp only [post, boxAssign]; staleauto
  case sCopy d s =>
    have e1 : ¬ 16 + 2 * tid = d := by omega
    have e2 : ¬ 16 + 2 * tid + 1 = d := by omega
    have e3 : ¬ d = 16 + 2 * tid := by omega
    have e4 : ¬ d = 16 + 2 * tid + 1 := by omega
    have f1 : ¬ 16 + 2 * tid = s := by omega
    have f2 : ¬ 16 + 2 * tid + 1 = s := by omega
    have f3 : ¬ s = 16 + 2 * tid := by omega
    have f4 : ¬ s = 16 + 2 * tid + 1 := by omega
    refine ⟨fun st => ?_, fun s1 => ?_⟩
    · simp only [pre, boxAssign]; staleauto
    · simp only [post, boxAssign]; staleauto
  case sAssign d s =>
    have e1 : ¬ 16 + 2 * tid = d := by omega
    have e2 : ¬ 16 + 2 * tid + 1 = d := by omega
    have e3 : ¬ d = 16 + 2 * tid := by omega
    have e4 : ¬ d = 16 + 2 * tid + 1 := by omega
    have f1 : ¬ 16 + 2 * tid = s := by omega
    have f2 : ¬ 16 + 2 * tid + 1 = s := by omega
    have f3 : ¬ s = 16 + 2 * tid := by omega
    have f4 : ¬ s = 16 + 2 * tid + 1 := by omega
    refine ⟨fun st => ?_, fun s1 => ?_⟩
    · simp only [pre, boxAssign]; staleauto
    · simp only [post, boxAssign]; staleauto
  case vCopy d s =>
    have e1 : ¬ 16 + 2 * tid = d := by omega
    have e2 : ¬ 16 + 2 * tid + 1 = d := by omega
    have e3 : ¬ d = 16 + 2 * tid := by omega
    have e4 : ¬ d = 16 + 2 * tid + 1 := by omega
    have f1 : ¬ 16 + 2 * tid = s := by omega
    have f2 : ¬ 16 + 2 * tid + 1 = s := by omega
    have f3 : ¬ s = 16 + 2 * tid := by omega
    have f4 : ¬ s = 16 + 2 * tid + 1 := by omega
    refine ⟨fun st => ?_, fun s1 => ?_⟩
    · simp only [pre, boxAssign]; staleauto
    · simp only [post, boxAssign]; staleauto
  case vAssign d s =>
    have e1 : ¬ 16 + 2 * tid = d := by omega
    have e2 : ¬ 16 + 2 * tid + 1 = d := by omega
    have e3 : ¬ d = 16 + 2 * tid := by omega
    have e4 : ¬ d = 16 + 2 * tid + 1 := by omega
    have f1 : ¬ 16 + 2 * tid = s := by omega
    have f2 : ¬ 16 + 2 * tid + 1 = s := by omega
    have f3 : ¬ s = 16 + 2 * tid := by omega
    have f4 : ¬ s = 16 + 2 * tid + 1 := by omega
    refine ⟨fun st => ?_, fun s1 => ?_⟩
    · simp only [pre, boxAssign]; staleauto
    · simp only [post, boxAssign]; staleauto
  case vSwap d s =>
    have e1 : ¬ 16 + 2 * tid = d := by omega
    have e2 : ¬ 16 + 2 * tid + 1 = d := by omega
    have e3 : ¬ d = 16 + 2 * tid := by omega
    have e4 : ¬ d = 16 + 2 * tid + 1 := by omega
    have f1 : ¬ 16 + 2 * tid = s := by omega
    have f2 : ¬ 16 + 2 * tid + 1 = s := by omega
    have f3 : ¬ s = 16 + 2 * tid := by omega
    have f4 : ¬ s = 16 + 2 * tid + 1 := by omega
    refine ⟨fun st => ?_, fun s1 => ?_⟩
    · simp only [pre, boxAssign]; staleauto
    · simp only [post, boxAssign]; staleauto
  case xCopy d s =>
    have e1 : ¬ 16 + 2 * tid = d := by omega
    have e2 : ¬ 16 + 2 * tid + 1 = d := by omega
    have e3 : ¬ d = 16 + 2 * tid := by omega
    have e4 : ¬ d = 16 + 2 * tid + 1 := by omega
    have f1 : ¬ 16 + 2 * tid = s := by omega
    have f2 : ¬ 16 + 2 * tid + 1 = s := by omega
    have f3 : ¬ s = 16 + 2 * tid := by omega
    have f4 : ¬ s = 16 + 2 * tid + 1 := by omega
    refine ⟨fun st => ?_, fun s1 => ?_⟩
    · simp only [pre, boxAssign]; staleauto
    · simp only [post, boxAssign]; staleauto
  case xAssign d s =>
    have e1 : ¬ 16 + 2 * tid = d := by omega
    have e2 : ¬ 16 + 2 * tid + 1 = d := by omega
    have e3 : ¬ d = 16 + 2 * tid := by omega
    have e4 : ¬ d = 16 + 2 * tid + 1 := by omega
    have f1 : ¬ 16 + 2 * tid = s := by omega
    have f2 : ¬ 16 + 2 * tid + 1 = s := by omega
    have f3 : ¬ s = 16 + 2 * tid := by omega
    have f4 : ¬ s = 16 + 2 * tid + 1 := by omega
    refine ⟨fun st => ?_, fun s1 => ?_⟩
    · simp only [pre, boxAssign]; staleauto
    · simp only [post, boxAssign]; staleauto
  case pSwap d s =>
    have e1 : ¬ 16 + 2 * tid = d := by omega
    have e2 : ¬ 16 + 2 * tid + 1 = d := by omega
    have e3 : ¬ d = 16 + 2 * tid := by omega
    have e4 : ¬ d = 16 + 2 * tid + 1 := by omega
    have f1 : ¬ 16 + 2 * tid = s := by omega
    have f2 : ¬ 16 + 2 * tid + 1 = s := by omega
    have f3 : ¬ s = 16 + 2 * tid := by omega
    have f4 : ¬ s = 16 + 2 * tid + 1 := by omega
    refine ⟨fun st => ?_, fun s1 => ?_⟩
    · simp only [pre, boxAssign]; staleauto
    · simp only [post, boxAssign]; staleauto

def Gh.clean (g : Gh) : Prop := ∀ x, (g.stale x).isSome = true → x ∈ ([] : List Nat)

theorem apiStepG_clean {s s' : St} {g g' : Gh} {tid : Nat} {op : ApiOp} (htid : tid < nThreads) (hf : flatOp op = true)
    (hi : idxOk op) (hg : g.clean) (hr : apiStepG s g tid op = some (s', g')) : g'.misuse = g.misuse ∧ g'.clean := by
  obtain ⟨hpre, hpost⟩ := flat_stale_ok tid op htid hf hi
  simp only [apiStepG] at hr
  cases h1 : runTG s g tid (pre s tid op) with
  | none => simp only [h1] at hr; cases hr
  | some p =>
    obtain ⟨s1, g1⟩ := p
    simp only [h1] at hr
    obtain ⟨m1, c1⟩ := staleOk_sound _ hg (hpre s) h1
    obtain ⟨m2, c2⟩ := staleOk_sound _ c1 (hpost s1) hr
    exact ⟨by rw [m2, m1], c2⟩

theorem apiRunG_clean {tid : Nat} (ops : List ApiOp) {s s' : St} {g g' : Gh} (htid : tid < nThreads)
    (hops : ∀ op, op ∈ ops → flatOp op = true ∧ idxOk op) (hg : g.clean) (hr : apiRunG s g tid ops = some (s', g')) :
    g'.misuse = g.misuse ∧ g'.clean := by
  induction ops generalizing s g with
  | nil => simp only [apiRunG, Option.some.injEq, Prod.mk.injEq] at hr; obtain ⟨_, e⟩ := hr; subst e; exact ⟨rfl, hg⟩
  | cons op r ih =>
    simp only [apiRunG] at hr
    cases h1 : apiStepG s g tid op with
    | none => simp only [h1] at hr; cases hr
    | some p =>
      obtain ⟨s1, g1⟩ := p
      simp only [h1] at hr
      obtain ⟨hf, hi⟩ := hops op (List.mem_cons_self ..)
      obtain ⟨m1, c1⟩ := apiStepG_clean htid hf hi hg h1
      obtain ⟨m2, c2⟩ := ih (fun o ho => hops o (List.mem_cons_of_mem _ ho)) c1 hr
      exact ⟨by rw [m2, m1], c2⟩

theorem gh0_clean : gh0.clean := by intro x hx; simp [gh0] at hx

end Nstd.Rc
