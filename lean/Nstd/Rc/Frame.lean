import Nstd.Rc.Total
/-
  Enabledness under interleaving.  The guards of a step of thread `tid` on its own top-level slots depend only
  on `pc tid`, the owner and the content of those slots (and `n`), none of which a step of another thread
  changes (frame).  Hence the step list of an API call that passes the abstract interpreter of Total.lean
  (`Plan`) can always be continued, whatever the other threads do in between: in every reachable state every
  thread with a pending String / Variant / Xml::Variant call has an enabled step.
-/
namespace Nstd.Rc

theorem astep_owner_other {s s' : St} {tid2 x : Nat} {a : Act} (hs : astep s tid2 a = some s') (hx : s.owner x ≠ tid2)
    (hlow : x < embBase) : s'.owner x = s.owner x := by
  cases a
  case give v t' =>
    simp only [astep] at hs
    split at hs
    case isFalse => cases hs
    case isTrue hc =>
      cases hs
      have : x ≠ v := by intro e; subst e; exact hx hc.2.1
      exact upd_other _ _ _ _ this
  case adoptF c k =>
    -- the releasing thread adopts a handle embedded in the dying payload: never a top-level slot
    simp only [astep] at hs
    split at hs
    case isFalse => cases hs
    case isTrue hc =>
      cases hs
      have : x ≠ embSlotK c k := by simp only [embSlotK]; omega
      exact upd_other _ _ _ _ this
  all_goals (
    simp only [astep] at hs <;> (repeat' split at hs) <;>
    first
    | (cases hs; done)
    | (cases hs; rfl)
    | (cases hs; simp only [doInc]; (repeat' split) <;> rfl))

/-- frame: the abstract view a thread has of its own slots survives every step of another thread -/
theorem conc_frame {s s' : St} {tid tid2 : Nat} {A : Abs} {a : Act} (hc : Conc s tid A)
    (hem : ∀ x, x ∈ A.empty → A.mine x = true)
    (hs : astep s tid2 a = some s') (hne : tid2 ≠ tid) : Conc s' tid A ∧ s'.n = s.n := by
  have hown : ∀ x, A.mine x = true → s.owner x ≠ tid2 := by
    intro x hx e; rw [hc.own x hx] at e; exact hne e.symm
  refine ⟨⟨inv_astep hc.inv hs, ?_, hc.low, ?_, ?_⟩, astep_n hs⟩
  · intro x hx; rw [astep_owner_other hs (hown x hx) (hc.low x hx)]; exact hc.own x hx
  · rw [astep_pc_other hs (Ne.symm hne)]; exact hc.ph
  · intro x hx
    have hmx : A.mine x = true → s'.slots x = s.slots x := by
      intro hm
      have hlow := hc.low x hm
      rcases astep_slots_other hs (hown x hm) with e | ⟨_, c, _, _, _, e⟩ | ⟨_, c, _, _, e⟩
      · exact e
      · simp only [embSlotK] at e; omega
      · simp only [embSlotK] at e; omega
    rw [hmx (hem x hx)]; exact hc.emp x hx

theorem absStep_empMine {n : Nat} {A A' : Abs} {a : Act} (hem : ∀ x, x ∈ A.empty → A.mine x = true)
    (h : absStep n A a = some A') : ∀ x, x ∈ A'.empty → A'.mine x = true := by
  have hd : ∀ t x, x ∈ A.drop t → A.mine x = true := fun t x hx => hem x (mem_drop hx).1
  cases a <;> simp only [absStep] at h <;> (try split at h) <;> first | (cases h; done) | skip
  all_goals (rename_i hc; cases h; intro x hx; (try simp only at hx ⊢))
  case inc => exact hd _ x hx
  case dec => rcases List.mem_cons.mp hx with e | e; (· subst e; exact hc.1); exact hem x e
  case free => exact hem x hx
  case alloc => exact hd _ x hx
  case readRef => exact hem x hx
  case write => exact hem x hx
  case move =>
    rcases List.mem_cons.mp hx with e | e
    · subst e; exact hc.1.2
    · exact hd _ x e
  case swap =>
    simp only [List.mem_filter] at hx
    exact hd _ x hx.1
  case setInl => exact hem x hx
  case clr => exact hem x hx

/-- thread `tid` can run the step list `acts` to the end: its abstract state passes the interpreter -/
def PlanTo (s : St) (tid : Nat) (acts : List Act) (A' : Abs) : Prop :=
  ∃ A, Conc s tid A ∧ (∀ x, x ∈ A.empty → A.mine x = true) ∧ absRun s.n A acts = some A'

def Plan (s : St) (tid : Nat) (acts : List Act) : Prop := ∃ A', PlanTo s tid acts A'

/-- a step of any other thread does not disturb the plan -/
theorem plan_other {s s' : St} {tid tid2 : Nat} {acts : List Act} {a : Act} (h : Plan s tid acts)
    (hs : astep s tid2 a = some s') (hne : tid2 ≠ tid) : Plan s' tid acts := by
  obtain ⟨A', A, hc, hem, hr⟩ := h
  obtain ⟨hc', hn⟩ := conc_frame hc hem hs hne
  exact ⟨A', A, hc', hem, by rw [hn]; exact hr⟩

/-- the next step of the plan is enabled, and the rest of the list is again a plan -/
theorem plan_progress {s : St} {tid : Nat} {a : Act} {r : List Act} (h : Plan s tid (a :: r)) :
    ∃ s', astep s tid a = some s' ∧ Plan s' tid r := by
  obtain ⟨A', A, hc, hem, hr⟩ := h
  simp only [absRun] at hr
  cases h1 : absStep s.n A a with
  | none => simp only [h1] at hr; cases hr
  | some A1 =>
    simp only [h1] at hr
    obtain ⟨s', hs, hc', hn⟩ := absStep_sound hc h1
    exact ⟨s', hs, A', A1, hc', absStep_empMine hem h1, by rw [hn]; exact hr⟩

/-- states reachable from s by steps of threads other than `tid` -/
inductive Others (tid : Nat) : St → St → Prop
  | refl {s} : Others tid s s
  | step {s s1 s2 tid2 a} : Others tid s s1 → astep s1 tid2 a = some s2 → tid2 ≠ tid → Others tid s s2

theorem plan_others {s s' : St} {tid : Nat} {acts : List Act} (h : Plan s tid acts) (ho : Others tid s s') :
    Plan s' tid acts := by
  induction ho with
  | refl => exact h
  | step _ hs hne ih => exact plan_other ih hs hne

/-- whatever the other threads do while thread `tid` is inside its step list, the list runs to its end:
    `acts` can be executed completely with arbitrary steps of other threads interleaved, never stuck -/
theorem plan_completes {tid : Nat} (acts : List Act) {s : St} (h : Plan s tid acts) :
    ∀ s0, Others tid s s0 → match acts with
      | [] => True
      | a :: r => ∃ s1, astep s0 tid a = some s1 ∧ Plan s1 tid r := by
  intro s0 ho
  cases acts with
  | nil => trivial
  | cons a r => exact plan_progress (plan_others h ho)

theorem planTo_other {s s' : St} {tid tid2 : Nat} {acts : List Act} {a : Act} {A' : Abs} (h : PlanTo s tid acts A')
    (hs : astep s tid2 a = some s') (hne : tid2 ≠ tid) : PlanTo s' tid acts A' := by
  obtain ⟨A, hc, hem, hr⟩ := h
  obtain ⟨hc', hn⟩ := conc_frame hc hem hs hne
  exact ⟨A, hc', hem, by rw [hn]; exact hr⟩

theorem planTo_progress {s : St} {tid : Nat} {a : Act} {r : List Act} {A' : Abs} (h : PlanTo s tid (a :: r) A') :
    ∃ s', astep s tid a = some s' ∧ PlanTo s' tid r A' := by
  obtain ⟨A, hc, hem, hr⟩ := h
  simp only [absRun] at hr
  cases h1 : absStep s.n A a with
  | none => simp only [h1] at hr; cases hr
  | some A1 =>
    simp only [h1] at hr
    obtain ⟨s', hs, hc', hn⟩ := absStep_sound hc h1
    exact ⟨s', hs, A1, hc', absStep_empMine hem h1, by rw [hn]; exact hr⟩

theorem planTo_done {s : St} {tid : Nat} {A' : Abs} (h : PlanTo s tid [] A') :
    Conc s tid A' ∧ ∀ x, x ∈ A'.empty → A'.mine x = true := by
  obtain ⟨A, hc, hem, hr⟩ := h
  simp only [absRun, Option.some.injEq] at hr
  subst hr
  exact ⟨hc, hem⟩

theorem absRun_empMine {n : Nat} (acts : List Act) {A A' : Abs} (hem : ∀ x, x ∈ A.empty → A.mine x = true)
    (h : absRun n A acts = some A') : ∀ x, x ∈ A'.empty → A'.mine x = true := by
  induction acts generalizing A with
  | nil => simp only [absRun, Option.some.injEq] at h; subst h; exact hem
  | cons a r ih =>
    simp only [absRun] at h
    cases h1 : absStep n A a with
    | none => simp only [h1] at h; cases h
    | some A1 => simp only [h1] at h; exact ih (absStep_empMine hem h1) h

/-- (1) a thread that is idle with empty scratch slots can start any String / Variant / Xml::Variant call on
    its own variables: the `pre` list of the call is a plan (and stays one under steps of other threads,
    `planTo_other`; each of its steps is enabled when its turn comes, `planTo_progress`) -/
theorem mt_call_pre {s : St} {tid : Nat} {op : ApiOp} {mine : Nat → Bool} (hc : Conc s tid (A0 tid mine))
    (hn : nSlots ≤ s.n) (htid : tid < nThreads) (hf : flatOp op = true) (hi : idxOk op) (hmi : idxMine mine op)
    (hmU : mine (tmpU tid) = true) (hmT : mine (tmpT tid) = true) :
    ∃ A1, PlanTo s tid (pre s tid op) A1 ∧ okMid s.n tid op (some A1) := by
  have ok := flat_lists_ok s.n tid op mine hn htid hf hi hmi hmU hmT s
  cases hA : absRun s.n (A0 tid mine) (pre s tid op) with
  | none => rw [hA] at ok; exact absurd ok (by simp [okMid])
  | some A1 =>
    rw [hA] at ok
    refine ⟨A1, ⟨A0 tid mine, hc, ?_, hA⟩, ok⟩
    intro x hx
    simp only [A0, List.mem_cons, List.not_mem_nil, or_false] at hx
    rcases hx with e | e <;> subst e <;> assumption

/-- (2) when the `pre` list is finished (in whatever state s1 the interleaving has led to), the `post` list
    decided in s1 is a plan that ends idle with empty scratch slots -/
theorem mt_call_post {s1 : St} {tid : Nat} {op : ApiOp} {A1 : Abs} {n : Nat} (hdone : PlanTo s1 tid [] A1)
    (hn : s1.n = n) (ok : okMid n tid op (some A1)) :
    ∃ A2, PlanTo s1 tid (post s1 tid op) A2 ∧ A2.good tid ∧ A2.mine = A1.mine := by
  obtain ⟨hc1, hem1⟩ := planTo_done hdone
  obtain ⟨hne, hpost⟩ := ok
  subst hn
  have fin : ∀ (A1' : Abs), A1'.mine = A1.mine → A1'.empty = A1.empty → Conc s1 tid A1' →
      okFinal tid (absRun s1.n A1' (post s1 tid op)) →
      ∃ A2, PlanTo s1 tid (post s1 tid op) A2 ∧ A2.good tid ∧ A2.mine = A1.mine := by
    intro A1' hm he hc1' hfin
    cases hB : absRun s1.n A1' (post s1 tid op) with
    | none => rw [hB] at hfin; exact absurd hfin (by simp [okFinal])
    | some A2 =>
      rw [hB] at hfin
      exact ⟨A2, ⟨A1', hc1', by rw [he, hm]; exact hem1, hB⟩, hfin, by rw [absRun_mine _ hB, hm]⟩
  by_cases hw : isWriting s1 tid = true
  · have hpc : ∃ t b, s1.pc tid = .writing t b := by
      simp only [isWriting] at hw
      cases hp : s1.pc tid with
      | writing t b => exact ⟨t, b, rfl⟩
      | idle => rw [hp] at hw; cases hw
      | freeing b => rw [hp] at hw; cases hw
    obtain ⟨t, b, hpc⟩ := hpc
    have hph : A1.ph = .mayWrite := by
      have := hc1.ph
      cases hA1 : A1.ph with
      | idle => rw [hA1] at this; simp only [phOk] at this; rw [hpc] at this; cases this
      | mayFree => exact absurd hA1 hne
      | mayWrite => rfl
    exact fin { A1 with ph := .mayWrite } rfl rfl ⟨hc1.inv, hc1.own, hc1.low, Or.inr ⟨t, b, hpc⟩, hc1.emp⟩
      ((hpost s1).1 hph hw)
  · have hw' : isWriting s1 tid = false := by simpa using hw
    have hidle : s1.pc tid = .idle := by
      have := hc1.ph
      cases hA1 : A1.ph with
      | idle => rw [hA1] at this; exact this
      | mayFree => exact absurd hA1 hne
      | mayWrite =>
        rw [hA1] at this
        rcases this with h | ⟨t, b, h⟩
        · exact h
        · simp [isWriting, h] at hw'
    exact fin { A1 with ph := .idle } rfl rfl ⟨hc1.inv, hc1.own, hc1.low, hidle, hc1.emp⟩ ((hpost s1).2 hw')

/-- (3) when the `post` list is finished the thread is idle with empty scratch slots again: ready for its
    next call (so (1)-(3) chain over a whole program of calls) -/
theorem mt_call_done {s2 : St} {tid : Nat} {A2 : Abs} {mine : Nat → Bool} (hdone : PlanTo s2 tid [] A2)
    (hg : A2.good tid) (hm : A2.mine = mine) : Conc s2 tid (A0 tid mine) :=
  conc_weaken (planTo_done hdone).1 hg hm

theorem idxMine_all (op : ApiOp) (hi : idxOk op) : idxMine mineAll op := by
  cases op <;> simp only [idxOk, nVars] at hi <;> simp [idxMine, mineAll, embBase, nSlots, nVars, nThreads] <;>
    first | exact decide_eq_true (by omega) | exact ⟨decide_eq_true (by omega), decide_eq_true (by omega)⟩

end Nstd.Rc
