import Nstd.Rc.Lemmas
import Nstd.Rc.Nested
/-
  The calls on payloads with several embedded handles (Nested.lean) stay inside `Reach`, and every call ends
  with an idle thread: the single-threaded theorems of Props.lean hold for all `apiRunN` histories.
-/
namespace Nstd.Rc

theorem dying_some {s : St} {tid c : Nat} {a : Act} (h : dying s tid a = some c) : a = .free ∧ s.pc tid = .freeing c := by
  cases a <;> simp only [dying] at h <;> try (cases h; done)
  split at h
  · rename_i c' hp; injection h with h; subst h; exact ⟨rfl, hp⟩
  · cases h

/-! ### reachability -/

theorem reach_runC {n tid : Nat} (fuel : Nat) : ∀ (acts : List Act) {s s' : St}, Reach n s →
    runC fuel s tid acts = some s' → Reach n s' := by
  induction fuel with
  | zero =>
    intro acts s s' h hr
    cases acts with
    | nil => simp only [runC, Option.some.injEq] at hr; subst hr; exact h
    | cons a r => simp only [runC] at hr; cases hr
  | succ f ih =>
    intro acts s s' h hr
    cases acts with
    | nil => simp only [runC, Option.some.injEq] at hr; subst hr; exact h
    | cons a r =>
      simp only [runC] at hr
      cases hd : dying s tid a with
      | some c =>
        simp only [hd] at hr
        cases h1 : runT s tid (adoptAll s c ++ [.free]) with
        | none => simp only [h1] at hr; cases hr
        | some s1 => simp only [h1] at hr; exact ih _ (reach_runT _ h h1) hr
      | none =>
        simp only [hd] at hr
        cases h1 : astep s tid a with
        | none => simp only [h1] at hr; cases hr
        | some s1 => simp only [h1] at hr; exact ih _ (Reach.step h h1) hr

theorem reach_apiStepN {n tid : Nat} {op : NOp} {s s' : St} (h : Reach n s) (hr : apiStepN s tid op = some s') :
    Reach n s' := by
  simp only [apiStepN] at hr
  cases h1 : runC (cascFuel s (preN s tid op)) s tid (preN s tid op) with
  | none => simp only [h1] at hr; cases hr
  | some s1 => simp only [h1] at hr; exact reach_runC _ _ (reach_runC _ _ h h1) hr

theorem reach_apiRunN {n tid : Nat} (ops : List NOp) {s s' : St} (h : Reach n s) (hr : apiRunN s tid ops = some s') :
    Reach n s' := by
  induction ops generalizing s with
  | nil => simp only [apiRunN, Option.some.injEq] at hr; subst hr; exact h
  | cons op r ih =>
    simp only [apiRunN] at hr
    cases ha : apiStepN s tid op with
    | none => simp only [ha] at hr; cases hr
    | some s1 => simp only [ha] at hr; exact ih (reach_apiStepN h ha) hr

/-! ### every call ends idle: a phase automaton over the step lists -/

inductive Phase
  | idle | mayFree | mayWrite
deriving DecidableEq

def phStep : Phase → Act → Option Phase
  | .idle, .dec _ => some .mayFree
  | .idle, .readRef _ _ => some .mayWrite
  | .idle, _ => some .idle
  | .mayFree, .free => some .idle
  | .mayFree, _ => none
  | .mayWrite, .write _ => some .idle
  | .mayWrite, _ => none

def phRun : Phase → List Act → Option Phase
  | ph, [] => some ph
  | ph, a :: r => match phStep ph a with
    | some ph1 => phRun ph1 r
    | none => none

def phOkN (p : Pc) : Phase → Prop
  | .idle => p = .idle
  | .mayFree => p = .idle ∨ ∃ b, p = .freeing b
  | .mayWrite => p = .idle ∨ ∃ t b, p = .writing t b

theorem astep_dec_pc {s s' : St} {tid t : Nat} (hs : astep s tid (.dec t) = some s') (hp : s.pc tid = .idle) :
    s'.pc tid = .idle ∨ ∃ b, s'.pc tid = .freeing b := by
  simp only [astep] at hs
  (repeat' split at hs) <;>
    first
    | (cases hs; done)
    | (cases hs; left; exact hp)
    | (cases hs; right; exact ⟨_, upd_same _ _ _⟩)

theorem astep_phase {s s' : St} {tid : Nat} {a : Act} {ph ph' : Phase} (hp : phOkN (s.pc tid) ph)
    (hph : phStep ph a = some ph') (hs : astep s tid a = some s') : phOkN (s'.pc tid) ph' := by
  cases ph with
  | idle =>
    simp only [phOkN] at hp
    cases a <;> simp only [phStep, Option.some.injEq] at hph <;> subst hph <;> simp only [phOkN]
    case dec t => exact astep_dec_pc hs hp
    case readRef t ok => exact astep_readRef_pc hs hp
    all_goals exact astep_idle hs rfl hp
  | mayFree =>
    cases a <;> simp only [phStep, Option.some.injEq, reduceCtorEq] at hph
    subst hph; exact astep_free_idle hs
  | mayWrite =>
    cases a <;> simp only [phStep, Option.some.injEq, reduceCtorEq] at hph
    subst hph; exact astep_write_idle hs

theorem phRun_append (a b : List Act) (ph : Phase) :
    phRun ph (a ++ b) = (phRun ph a).bind (fun p => phRun p b) := by
  induction a generalizing ph with
  | nil => rfl
  | cons x r ih =>
    simp only [List.cons_append, phRun]
    cases phStep ph x with
    | none => rfl
    | some p => exact ih p

theorem phRun_idle_append {a b : List Act} (ha : phRun .idle a = some .idle) : phRun .idle (a ++ b) = phRun .idle b := by
  rw [phRun_append, ha]; rfl

theorem phRun_rel (d : Nat) : phRun .idle (rel d) = some .idle := rfl

theorem phRun_relEmb (c : Nat) (ks : List Nat) : phRun .idle (relEmb c ks) = some .idle := by
  induction ks with
  | nil => rfl
  | cons k r ih => simp only [relEmb]; rw [phRun_idle_append (phRun_rel _)]; exact ih

theorem runT_phase {tid : Nat} (acts : List Act) {s s' : St} {ph ph' : Phase} (hp : phOkN (s.pc tid) ph)
    (hph : phRun ph acts = some ph') (hr : runT s tid acts = some s') : phOkN (s'.pc tid) ph' := by
  induction acts generalizing s ph with
  | nil => simp only [runT, Option.some.injEq] at hr; simp only [phRun, Option.some.injEq] at hph; subst hr; subst hph; exact hp
  | cons a r ih =>
    simp only [runT] at hr
    simp only [phRun] at hph
    cases h1 : astep s tid a with
    | none => simp only [h1] at hr; cases hr
    | some s1 =>
      simp only [h1] at hr
      cases h2 : phStep ph a with
      | none => simp only [h2] at hph; cases hph
      | some ph1 => simp only [h2] at hph; exact ih (astep_phase hp h2 h1) hph hr

theorem astep_adoptF_pc {s s' : St} {tid c k : Nat} (hs : astep s tid (.adoptF c k) = some s') : s'.pc = s.pc := by
  simp only [astep] at hs
  split at hs <;> first | (cases hs; done) | (cases hs; rfl)

theorem runT_adoptAll_pc {tid c : Nat} (ks : List Nat) {s s' : St}
    (hr : runT s tid (ks.map (fun k => Act.adoptF c k)) = some s') : s'.pc = s.pc := by
  induction ks generalizing s with
  | nil => simp only [List.map_nil, runT, Option.some.injEq] at hr; subst hr; rfl
  | cons k r ih =>
    simp only [List.map_cons, runT] at hr
    cases h1 : astep s tid (.adoptF c k) with
    | none => simp only [h1] at hr; cases hr
    | some s1 => simp only [h1] at hr; rw [ih hr, astep_adoptF_pc h1]

/-- the thread is idle after it adopted the embedded handles and deleted the block -/
theorem cascade_head_idle {s s1 : St} {tid c : Nat} (hr : runT s tid (adoptAll s c ++ [.free]) = some s1) :
    s1.pc tid = .idle := by
  rw [runT_append] at hr
  cases h0 : runT s tid (adoptAll s c) with
  | none => simp only [h0, Option.bind] at hr; cases hr
  | some s0 =>
    simp only [h0, Option.bind, runT] at hr
    cases h1 : astep s0 tid .free with
    | none => simp only [h1] at hr; cases hr
    | some s2 => simp only [h1, Option.some.injEq] at hr; subst hr; exact astep_free_idle h1

theorem runC_phase {tid : Nat} (fuel : Nat) : ∀ (acts : List Act) {s s' : St} {ph ph' : Phase}, phOkN (s.pc tid) ph →
    phRun ph acts = some ph' → runC fuel s tid acts = some s' → phOkN (s'.pc tid) ph' := by
  induction fuel with
  | zero =>
    intro acts s s' ph ph' hp hph hr
    cases acts with
    | nil => simp only [runC, Option.some.injEq] at hr; simp only [phRun, Option.some.injEq] at hph; subst hr; subst hph; exact hp
    | cons a r => simp only [runC] at hr; cases hr
  | succ f ih =>
    intro acts s s' ph ph' hp hph hr
    cases acts with
    | nil => simp only [runC, Option.some.injEq] at hr; simp only [phRun, Option.some.injEq] at hph; subst hr; subst hph; exact hp
    | cons a r =>
      simp only [runC] at hr
      simp only [phRun] at hph
      cases hd : dying s tid a with
      | some c =>
        obtain ⟨ha, hpc⟩ := dying_some hd
        subst ha
        simp only [hd] at hr
        cases h1 : runT s tid (adoptAll s c ++ [.free]) with
        | none => simp only [h1] at hr; cases hr
        | some s1 =>
          simp only [h1] at hr
          have hi := cascade_head_idle h1
          -- after `free` the phase is idle whatever it was (a `free` is not admitted between a read and its write)
          have hph1 : phRun .idle r = some ph' := by
            cases ph with
            | idle => simpa [phStep] using hph
            | mayFree => simpa [phStep] using hph
            | mayWrite => simp [phStep] at hph
          refine ih _ (ph := .idle) hi ?_ hr
          rw [phRun_idle_append (phRun_relEmb _ _)]; exact hph1
      | none =>
        simp only [hd] at hr
        cases h1 : astep s tid a with
        | none => simp only [h1] at hr; cases hr
        | some s1 =>
          simp only [h1] at hr
          cases h2 : phStep ph a with
          | none => simp only [h2] at hph; cases hph
          | some ph1 => simp only [h2] at hph; exact ih _ (astep_phase hp h2 h1) hph hr

theorem phRun_of_bal {acts : List Act} (hb : bal acts = true) : phRun .idle acts = some .idle := by
  induction acts using bal.induct with
  | case1 => rfl
  | case2 t r ih => simp only [bal] at hb; simp only [phRun, phStep]; exact ih hb
  | case3 t r hne => simp [bal] at hb
  | case4 t ok r => simp [bal] at hb
  | case5 a r h1 h2 h3 ih =>
    have hr : bal r = true := by cases a <;> simp_all [bal]
    have hs : phStep .idle a = some .idle := by cases a <;> simp_all [phStep]
    simp only [phRun, hs]; exact ih hr

theorem phRun_copyEmb (tid c v c' w : Nat) (ks : List Nat) : phRun .idle (copyEmb tid c v c' w ks) = some .idle := by
  induction ks with
  | nil => rfl
  | cons k r ih => simp only [copyEmb, List.cons_append, List.nil_append, phRun, phStep]; exact ih

theorem phRun_dropEmb (tid c d : Nat) (ks : List Nat) : phRun .idle (dropEmb tid c d ks) = some .idle := by
  induction ks with
  | nil => rfl
  | cons k r ih =>
    simp only [dropEmb, List.cons_append, List.nil_append, phRun, phStep]
    rw [phRun_idle_append (phRun_rel _)]; exact ih

theorem phRun_storeElem (st : St) (tid c k d s : Nat) : phRun .idle (storeElem st tid c k d s) = some .idle := by
  simp only [storeElem]; split <;> rfl

/-- the three properties of the step lists of a call that make it end idle -/
structure CallOk (tid : Nat) (op : NOp) : Prop where
  pre : ∀ st, phRun .idle (preN st tid op) = some .idle ∨ phRun .idle (preN st tid op) = some .mayWrite
  postIdle : ∀ s1, isWriting s1 tid = false → phRun .idle (postN s1 tid op) = some .idle
  postWrite : ∀ st s1, phRun .idle (preN st tid op) = some .mayWrite → isWriting s1 tid = true →
    phRun .mayWrite (postN s1 tid op) = some .idle

theorem phRun_appendN_idle (st : St) (tid d tag x : Nat) (s : Option Nat) (isList : Bool) (hw : isWriting st tid = false) :
    phRun .idle (appendN st tid d tag x s isList) = some .idle := by
  have hstore : ∀ c k, phRun .idle (storeOpt st tid c k d s) = some .idle := by
    intro c k; cases s with
    | none => rfl
    | some s => exact phRun_storeElem _ _ _ _ _ _
  simp only [appendN, hw, Bool.false_eq_true, if_false]
  split
  · simp only [List.cons_append, List.nil_append, List.append_assoc, phRun, phStep]
    rw [phRun_idle_append (phRun_copyEmb _ _ _ _ _ _)]
    simp only [List.cons_append, phRun, phStep]
    exact hstore _ _
  · simp only [List.cons_append, List.nil_append, phRun, phStep]
    exact hstore _ _

theorem phRun_appendN_write (st : St) (tid d tag x : Nat) (s : Option Nat) (isList : Bool) (hw : isWriting st tid = true) :
    phRun .mayWrite (appendN st tid d tag x s isList) = some .idle := by
  have hstore : ∀ c k, phRun .idle (storeOpt st tid c k d s) = some .idle := by
    intro c k; cases s with
    | none => rfl
    | some s => exact phRun_storeElem _ _ _ _ _ _
  simp only [appendN, hw, if_true]
  split
  · simp only [List.cons_append, List.nil_append, phRun, phStep]
    exact hstore _ _
  · rfl

theorem callOk_of_post (tid : Nat) (op : ApiOp) (hpost : ∀ st, postN st tid (.flat op) = post st tid op) :
    CallOk tid (.flat op) := by
  refine ⟨?_, ?_, ?_⟩
  · intro st
    show phRun .idle (pre st tid op) = _ ∨ phRun .idle (pre st tid op) = _
    rcases pre_shape st tid op with hb | ⟨p, d, ok, hbp, hpre, _⟩
    · left; exact phRun_of_bal hb
    · right; rw [hpre, phRun_append, phRun_of_bal hbp]; rfl
  · intro s1 hw; rw [hpost]; exact phRun_of_bal (post_bal s1 tid op hw)
  · intro st s1 hm hw
    rw [hpost]
    rcases pre_shape st tid op with hb | ⟨p, d, ok, hbp, hpre, hp⟩
    · have : phRun .idle (preN st tid (.flat op)) = some .idle := phRun_of_bal hb
      rw [this] at hm; cases hm
    · obtain ⟨v, r, hv, hbr⟩ := hp s1 hw
      rw [hv]; simp only [phRun, phStep]; exact phRun_of_bal hbr

theorem phRun_getEmb (st : St) (tid d s k tag : Nat) (isList : Bool) :
    phRun .idle (getEmb st tid d s k tag isList) = some .idle := by
  simp only [getEmb]
  (repeat' split) <;> rfl

theorem callOk (tid : Nat) (op : NOp) : CallOk tid op := by
  cases op with
  | vPushV d s =>
    refine ⟨?_, ?_, ?_⟩
    · intro st; simp only [preN]; split
      · left; rfl
      · right; rfl
    · intro s1 hw; exact phRun_appendN_idle _ _ _ _ _ _ _ hw
    · intro st s1 _ hw; exact phRun_appendN_write _ _ _ _ _ _ _ hw
  | xAddC d s =>
    refine ⟨?_, ?_, ?_⟩
    · intro st; simp only [preN]; split
      · left; rfl
      · right; rfl
    · intro s1 hw; exact phRun_appendN_idle _ _ _ _ _ _ _ hw
    · intro st s1 _ hw; exact phRun_appendN_write _ _ _ _ _ _ _ hw
  | vGetV d s k =>
    refine ⟨fun st => Or.inl (phRun_getEmb _ _ _ _ _ _ _), fun _ _ => rfl, ?_⟩
    intro st s1 hm _
    have : phRun .idle (preN st tid (.vGetV d s k)) = some .idle := phRun_getEmb _ _ _ _ _ _ _
    rw [this] at hm; cases hm
  | aPushV d s =>
    refine ⟨?_, ?_, ?_⟩
    · intro st; simp only [preN]; split
      · left; rfl
      · right; rfl
    · intro s1 hw; exact phRun_appendN_idle _ _ _ _ _ _ _ hw
    · intro st s1 _ hw; exact phRun_appendN_write _ _ _ _ _ _ _ hw
  | aGetV d s k =>
    refine ⟨fun st => Or.inl (phRun_getEmb _ _ _ _ _ _ _), fun _ _ => rfl, ?_⟩
    intro st s1 hm _
    have : phRun .idle (preN st tid (.aGetV d s k)) = some .idle := phRun_getEmb _ _ _ _ _ _ _
    rw [this] at hm; cases hm
  | xGetC d s k =>
    refine ⟨fun st => Or.inl (phRun_getEmb _ _ _ _ _ _ _), fun _ _ => rfl, ?_⟩
    intro st s1 hm _
    have : phRun .idle (preN st tid (.xGetC d s k)) = some .idle := phRun_getEmb _ _ _ _ _ _ _
    rw [this] at hm; cases hm
  | sFromV d s =>
    have hp : ∀ st, phRun .idle (preN st tid (.sFromV d s)) = some .idle := by
      intro st; simp only [preN]; (repeat' split) <;> rfl
    refine ⟨fun st => Or.inl (hp st), fun _ _ => rfl, ?_⟩
    intro st s1 hm _; rw [hp st] at hm; cases hm
  | vSetS d s =>
    refine ⟨fun st => Or.inr rfl, ?_, ?_⟩
    · intro s1 hw; simp only [postN, hw, Bool.false_eq_true, if_false, innerFromVar]; (repeat' split) <;> rfl
    · intro st s1 _ hw; simp only [postN, hw, if_true, innerAssign]; (repeat' split) <;> rfl
  | vAppS d bytes =>
    refine ⟨fun st => Or.inr rfl, ?_, ?_⟩
    · intro s1 hw; simp only [postN, hw, Bool.false_eq_true, if_false]; (repeat' split) <;> rfl
    · intro st s1 _ hw; simp only [postN, hw, if_true]; (repeat' split) <;> rfl
  | flat op =>
    cases op
    case vPush d x =>
      refine ⟨fun st => Or.inr rfl, ?_, ?_⟩
      · intro s1 hw; exact phRun_appendN_idle _ _ _ _ _ _ _ hw
      · intro st s1 _ hw; exact phRun_appendN_write _ _ _ _ _ _ _ hw
    case vSetList d x =>
      refine ⟨fun st => Or.inr rfl, ?_, ?_⟩
      · intro s1 hw; simp only [postN, hw, Bool.false_eq_true, if_false]; rfl
      · intro st s1 _ hw
        simp only [postN, hw, if_true, List.cons_append, List.nil_append, phRun, phStep]
        split
        · exact phRun_dropEmb _ _ _ _
        · rfl
    case vPushA d x =>
      refine ⟨fun st => Or.inr rfl, ?_, ?_⟩
      · intro s1 hw; exact phRun_appendN_idle _ _ _ _ _ _ _ hw
      · intro st s1 _ hw; exact phRun_appendN_write _ _ _ _ _ _ _ hw
    case vSetArr d x =>
      refine ⟨fun st => Or.inr rfl, ?_, ?_⟩
      · intro s1 hw; simp only [postN, hw, Bool.false_eq_true, if_false]; rfl
      · intro st s1 _ hw
        simp only [postN, hw, if_true, List.cons_append, List.nil_append, phRun, phStep]
        split
        · exact phRun_dropEmb _ _ _ _
        · rfl
    case xElem d bytes =>
      refine ⟨fun st => Or.inr rfl, ?_, ?_⟩
      · intro s1 hw
        simp only [postN, hw, Bool.false_eq_true, if_false]
        split
        · simp only [List.cons_append, List.nil_append, List.append_assoc, phRun, phStep]
          rw [phRun_idle_append (phRun_copyEmb _ _ _ _ _ _)]; rfl
        · rfl
      · intro st s1 _ hw; simp only [postN, hw, if_true]; rfl
    all_goals exact callOk_of_post _ _ (fun _ => rfl)

/-- a call (with the destructor cascade) that starts with an idle thread ends with an idle thread -/
theorem apiStepN_idle {s s' : St} {tid : Nat} {op : NOp} (hp : s.pc tid = .idle) (hr : apiStepN s tid op = some s') :
    s'.pc tid = .idle := by
  have ok := callOk tid op
  simp only [apiStepN] at hr
  cases h1 : runC (cascFuel s (preN s tid op)) s tid (preN s tid op) with
  | none => simp only [h1] at hr; cases hr
  | some s1 =>
    simp only [h1] at hr
    have idleCase : s1.pc tid = .idle → s'.pc tid = .idle := by
      intro hi
      have hw : isWriting s1 tid = false := by simp [isWriting, hi]
      exact runC_phase _ _ (ph := .idle) (ph' := .idle) hi (ok.postIdle s1 hw) hr
    rcases ok.pre s with hpre | hpre
    · exact idleCase (runC_phase _ _ (ph := .idle) (ph' := .idle) hp hpre h1)
    · have hm : phOkN (s1.pc tid) .mayWrite := runC_phase _ _ (ph := .idle) (ph' := .mayWrite) hp hpre h1
      rcases hm with hi | ⟨t, b, hwr⟩
      · exact idleCase hi
      · have hw : isWriting s1 tid = true := by simp [isWriting, hwr]
        exact runC_phase _ _ (ph := .mayWrite) (ph' := .idle) (Or.inr ⟨t, b, hwr⟩) (ok.postWrite s s1 hpre hw) hr

theorem runC_pc_other {tid tid2 : Nat} (fuel : Nat) : ∀ (acts : List Act) {s s' : St}, runC fuel s tid acts = some s' →
    tid2 ≠ tid → s'.pc tid2 = s.pc tid2 := by
  induction fuel with
  | zero =>
    intro acts s s' hr _
    cases acts with
    | nil => simp only [runC, Option.some.injEq] at hr; subst hr; rfl
    | cons a r => simp only [runC] at hr; cases hr
  | succ f ih =>
    intro acts s s' hr hne
    cases acts with
    | nil => simp only [runC, Option.some.injEq] at hr; subst hr; rfl
    | cons a r =>
      simp only [runC] at hr
      cases hd : dying s tid a with
      | some c =>
        simp only [hd] at hr
        cases h1 : runT s tid (adoptAll s c ++ [.free]) with
        | none => simp only [h1] at hr; cases hr
        | some s1 => simp only [h1] at hr; rw [ih _ hr hne, runT_pc_other _ h1 hne]
      | none =>
        simp only [hd] at hr
        cases h1 : astep s tid a with
        | none => simp only [h1] at hr; cases hr
        | some s1 => simp only [h1] at hr; rw [ih _ hr hne, astep_pc_other h1 hne]

theorem quiet_apiStepN {s s' : St} {tid : Nat} {op : NOp} (hq : Quiet s) (hr : apiStepN s tid op = some s') : Quiet s' := by
  intro tid2
  by_cases e : tid2 = tid
  · subst e; exact apiStepN_idle (hq _) hr
  · simp only [apiStepN] at hr
    cases h1 : runC (cascFuel s (preN s tid op)) s tid (preN s tid op) with
    | none => simp only [h1] at hr; cases hr
    | some s1 =>
      simp only [h1] at hr
      rw [runC_pc_other _ _ hr e, runC_pc_other _ _ h1 e]; exact hq _

theorem quiet_apiRunN {tid : Nat} (ops : List NOp) {s s' : St} (hq : Quiet s) (hr : apiRunN s tid ops = some s') :
    Quiet s' := by
  induction ops generalizing s with
  | nil => simp only [apiRunN, Option.some.injEq] at hr; subst hr; exact hq
  | cons op r ih =>
    simp only [apiRunN] at hr
    cases ha : apiStepN s tid op with
    | none => simp only [ha] at hr; cases hr
    | some s1 => simp only [ha] at hr; exact ih (quiet_apiStepN hq ha) hr

end Nstd.Rc
