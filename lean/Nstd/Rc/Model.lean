/-
  Model of the reference-counted payload sharing of libnstd (property C09):
  String (String.hpp), Variant boxed data (Variant.hpp), Xml::Variant (Document/Xml.hpp) and
  RefCount::Ptr (RefCount.hpp).

  One heap of payload blocks with a reference counter, handle slots (the `data` / `refObj`
  pointers of the C++ objects) owned by threads, and the *atomic steps* the C++ code performs on
  them (`Act`): atomic increment, atomic decrement-and-test, the plain read of the counter
  that guards an in-place write, allocation, the in-place write itself, `delete`.
  `astep s tid a` is one atomic step of thread `tid`; an interleaving is a list of
  `(tid, act)` pairs (`Reach`).  Every API call of the four classes is a short sequence of such
  steps (`pre`/`post`); the single-threaded semantics `apiStep` runs the sequence of one call to
  completion on thread 0, the multi-threaded driver interleaves the sequences of several threads
  under a given schedule.  Core Lean only.
-/
namespace Nstd.Rc

/-- what a handle slot holds: nothing (the shared static empty/null descriptor), an inline
    (not counted) value — String literal/attached memory, inline Variant scalar — or a pointer
    to a counted payload block -/
inductive Handle
  | none
  | inl (tag : Nat) (val : List Nat)
  | blk (b : Nat)
deriving DecidableEq, Repr

structure Block where
  tag : Nat            -- payload kind (0 String data, 12/13 Variant string/list, 22/23 Xml text/element, 30 RefCount::Object)
  val : List Nat       -- payload content
  cap : Nat            -- String capacity (0 for the other kinds)
  ref : Nat            -- the reference counter
deriving DecidableEq, Repr

/-- what a thread is in the middle of -/
inductive Pc
  | idle
  | freeing (b : Nat)        -- its decrement reached zero: it has to release block b
  | writing (t b : Nat)      -- it read `ref == 1` through slot t: it is about to write block b in place
deriving DecidableEq, Repr

structure St where
  n : Nat                       -- number of handle slots
  heap : Nat → Option Block     -- block id ↦ block; `none` = released / never allocated
  freed : Nat → Nat             -- ghost: how often block id was released
  next : Nat                    -- first unused block id
  slots : Nat → Handle
  owner : Nat → Nat             -- slot ↦ thread that owns the C++ object
  pc : Nat → Pc
  viol : Nat                    -- ghost: number of accesses to released blocks, double releases,
                                --        in-place writes while another handle exists
  capTab : Nat → Nat → Nat := fun _ len => len ||| 3
                                -- parameter, never changed by a step: capacity policy of the String allocation
                                -- sites (site, requested minimum ↦ capacity), measured on the real class by the harness
  growTab : Nat → Nat → Nat := fun _ len => len ||| 3
                                -- parameter: capacity chosen by `detach` for the ONLY owner of a block that is too small
                                -- (old capacity, requested minimum ↦ capacity), measured the same way
  assignSameSkip : Bool := false
                                -- parameter: `operator=` between two handles of the SAME counted block performs no atomic
                                -- operation (true) or increment + decrement (false); measured the same way
  assignEmptyStatic : Bool := false
                                -- parameter: `operator=` from the static empty String stores the static descriptor (true)
                                -- or allocates an empty block (false); measured the same way

def upd {α : Type} (f : Nat → α) (i : Nat) (x : α) : Nat → α := fun j => if j = i then x else f j

@[simp] theorem upd_same {α} (f : Nat → α) (i x) : upd f i x i = x := by simp [upd]
@[simp] theorem upd_other {α} (f : Nat → α) (i j x) (h : j ≠ i) : upd f i x j = f j := by simp [upd, h]

/-- number of slots among `0..n-1` that hold a pointer to block `b` -/
def handlesOf (n : Nat) (slots : Nat → Handle) (b : Nat) : Nat :=
  (List.range n).countP (fun v => slots v == Handle.blk b)

@[reducible] def handles (s : St) (b : Nat) : Nat := handlesOf s.n s.slots b

def Handle.isBlk : Handle → Bool
  | .blk _ => true
  | _ => false

/-- slot layout used by the drivers: 16 variables (4 String, 4 Variant, 4 Xml::Variant, 4 Ptr),
    then per thread two scratch slots: `tmpU tid` = a named temporary object of the C++ code,
    `tmpT tid` = the reference taken by an increment that has not yet been stored in the
    destination ("in flight") -/
def nVars : Nat := 16
def nThreads : Nat := 4
def nSlots : Nat := nVars + 2 * nThreads
def tmpU (tid : Nat) : Nat := nVars + 2 * tid
def tmpT (tid : Nat) : Nat := nVars + 2 * tid + 1


/-- the handle embedded in payload block `b` (the `next` pointer of a RefCount object, the String inside a
    box) is slot `embSlot b` -/
def embBase : Nat := nSlots
def maxBlocks : Nat := 232
/-- size of the family of embedded slots per block in the slot layout of the drivers (the model and the theorems
    put no bound on it: slot k of block b exists in every state with `embSlotK b k < n`) -/
def famK : Nat := 4
def nTotal : Nat := embBase + maxBlocks * famK
/-- the FAMILY of handles embedded in payload block `b` (the elements of a list / array / map payload, the
    children of an Xml element, the `next` pointer of a counted object): slot k of block b, for b < maxBlocks -/
def embSlotK (b k : Nat) : Nat := embBase + b + maxBlocks * k
/-- slot 0 of the family -/
def embSlot (b : Nat) : Nat := embBase + b

theorem embSlotK_zero (b : Nat) : embSlotK b 0 = embSlot b := rfl

theorem embSlotK_inj {b b' k k' : Nat} (hb : b < maxBlocks) (hb' : b' < maxBlocks) (h : embSlotK b k = embSlotK b' k') :
    b = b' ∧ k = k' := by
  simp only [embSlotK, maxBlocks] at *
  omega

def Pc.notWriting : Pc → Bool
  | .writing _ _ => false
  | _ => true

/-- the atomic steps -/
inductive Act
  | inc (t src : Nat)                       -- copy the handle of slot src into the empty slot t; `Atomic::increment(data->ref)` when it is counted
  | dec (t : Nat)                           -- `if(data->ref && Atomic::decrement(data->ref) == 0)` …; the slot is reset to the static descriptor
  | free                                    -- … `delete[] (char*)data` / `delete refObj` (no-op when the decrement did not reach zero)
  | alloc (t tag : Nat) (val : List Nat) (cap : Nat)   -- new block with ref = 1 into the empty slot t
  | readRef (t : Nat) (ok : Bool)           -- plain read `data->ref == 1` (`ok` = the other conjuncts: capacity, payload type)
  | write (val : List Nat)                  -- the in-place modification guarded by the preceding read (no-op if that read failed)
  | move (d t : Nat)                        -- d.data = t.data; t becomes empty (thread-local)
  | swap (a b : Nat)                        -- exchange two handles (RefCount::Ptr::swap)
  | setInl (d tag : Nat) (val : List Nat)   -- inline value into the empty slot d (thread-local)
  | give (v tid' : Nat)                     -- hand the C++ object in slot v over to another thread
  | clr (t : Nat)                           -- `data = &emptyData` / the default constructor after a destructor: the stale pointer is gone
  -- handles embedded in a payload block c (slot `embSlot c`), used by threads that do not own that slot:
  | incE (t c k v : Nat)                    -- copy the embedded handle k of c into the empty own slot t (+ increment); the thread
                                            --   holds block c through its own slot v (a shared payload is read-only)
  | takeE (t c k v : Nat)                   -- move the embedded handle k of c into the empty own slot t: only the sole owner of c
  | putE (c k t v : Nat)                    -- move the own slot t into the empty embedded slot k of c: only the sole owner of c
  | takeF (t c k : Nat)                     -- the thread that is releasing c takes the embedded handle k out (destructor of c)
  | adoptF (c k : Nat)                      -- the thread that is releasing c becomes the owner of the embedded handle k (it runs the
                                            --   destructors of all elements of the dying payload after its own decrement reached zero)
deriving Repr

/-- copy the handle in slot src into slot t, incrementing the counter of a counted block -/
def doInc (s : St) (t src : Nat) : St :=
  match s.slots src with
  | .blk b =>
    match s.heap b with
    | some blk => { s with heap := upd s.heap b (some { blk with ref := blk.ref + 1 }),
                           slots := upd s.slots t (.blk b) }
    | none => { s with viol := s.viol + 1 }
  | h => { s with slots := upd s.slots t h }

/-- thread-local pointer move: slot d takes the handle of slot t, t becomes empty -/
def doMove (s : St) (d t : Nat) : St := { s with slots := upd (upd s.slots d (s.slots t)) t .none }

def soleVia (s : St) (tid v c : Nat) : Prop :=
  v < s.n ∧ s.owner v = tid ∧ s.slots v = .blk c ∧ ∃ blk, s.heap c = some blk ∧ blk.ref = 1

instance (s : St) (tid v c : Nat) : Decidable (soleVia s tid v c) := by
  unfold soleVia
  cases h : s.heap c with
  | none => exact isFalse (by rintro ⟨_, _, _, blk, hb, _⟩; cases hb)
  | some blk =>
    exact decidable_of_iff (v < s.n ∧ s.owner v = tid ∧ s.slots v = .blk c ∧ blk.ref = 1)
      ⟨fun ⟨a, b, c', d⟩ => ⟨a, b, c', blk, rfl, d⟩, fun ⟨a, b, c', blk', hb, d⟩ => by
        injection hb with hb; subst hb; exact ⟨a, b, c', d⟩⟩

/-- one atomic step of thread `tid`; `none` = the step is not possible (rejected op) -/
def astep (s : St) (tid : Nat) : Act → Option St
  | .inc t src =>
    if t < s.n ∧ src < s.n ∧ s.owner t = tid ∧ s.owner src = tid ∧ s.pc tid = .idle ∧ (s.slots t).isBlk = false then
      some (doInc s t src)
    else none
  | .incE t c k v =>
    if t < s.n ∧ embSlotK c k < s.n ∧ s.owner t = tid ∧ s.pc tid = .idle ∧ (s.slots t).isBlk = false ∧
       (s.pc (s.owner (embSlotK c k))).notWriting = true ∧ v < s.n ∧ s.owner v = tid ∧ s.slots v = .blk c ∧ c < maxBlocks then
      some (doInc s t (embSlotK c k))
    else none
  | .takeE t c k v =>
    if t < s.n ∧ embSlotK c k < s.n ∧ t ≠ embSlotK c k ∧ s.owner t = tid ∧ s.pc tid = .idle ∧ (s.slots t).isBlk = false ∧
       (s.pc (s.owner (embSlotK c k))).notWriting = true ∧ soleVia s tid v c ∧ c < maxBlocks then
      some (doMove s t (embSlotK c k))
    else none
  | .putE c k t v =>
    if t < s.n ∧ embSlotK c k < s.n ∧ t ≠ embSlotK c k ∧ s.owner t = tid ∧ s.pc tid = .idle ∧ (s.slots (embSlotK c k)).isBlk = false ∧
       (s.pc (s.owner (embSlotK c k))).notWriting = true ∧ soleVia s tid v c ∧ c < maxBlocks then
      some (doMove s (embSlotK c k) t)
    else none
  | .takeF t c k =>
    if t < s.n ∧ embSlotK c k < s.n ∧ t ≠ embSlotK c k ∧ s.owner t = tid ∧ s.pc tid = .freeing c ∧ (s.slots t).isBlk = false ∧
       (s.pc (s.owner (embSlotK c k))).notWriting = true ∧ c < maxBlocks then
      some (doMove s t (embSlotK c k))
    else none
  | .adoptF c k =>
    if embSlotK c k < s.n ∧ s.pc tid = .freeing c ∧ (s.pc (s.owner (embSlotK c k))).notWriting = true ∧ c < maxBlocks then
      some { s with owner := upd s.owner (embSlotK c k) tid }
    else none
  | .dec t =>
    if t < s.n ∧ s.owner t = tid ∧ s.pc tid = .idle then
      match s.slots t with
      | .blk b =>
        match s.heap b with
        | some blk =>
          if blk.ref = 0 then some { s with viol := s.viol + 1 }
          else some { s with heap := upd s.heap b (some { blk with ref := blk.ref - 1 }),
                             slots := upd s.slots t .none,
                             pc := if blk.ref = 1 then upd s.pc tid (.freeing b) else s.pc }
        | none => some { s with viol := s.viol + 1 }
      | _ => some { s with slots := upd s.slots t .none }
    else none
  | .free =>
    match s.pc tid with
    | .freeing b =>
      match s.heap b with
      | some _ => some { s with heap := upd s.heap b none, freed := upd s.freed b (s.freed b + 1),
                                pc := upd s.pc tid .idle }
      | none => some { s with freed := upd s.freed b (s.freed b + 1), viol := s.viol + 1, pc := upd s.pc tid .idle }
    | .idle => some s
    | .writing _ _ => none
  | .alloc t tag val cap =>
    if t < s.n ∧ s.owner t = tid ∧ s.pc tid = .idle ∧ (s.slots t).isBlk = false then
      some { s with heap := upd s.heap s.next (some ⟨tag, val, cap, 1⟩), next := s.next + 1,
                    slots := upd s.slots t (.blk s.next) }
    else none
  | .readRef t ok =>
    if t < s.n ∧ s.owner t = tid ∧ s.pc tid = .idle then
      match s.slots t with
      | .blk b =>
        match s.heap b with
        | some blk => if blk.ref = 1 ∧ ok = true then some { s with pc := upd s.pc tid (.writing t b) } else some s
        | none => some { s with viol := s.viol + 1 }
      | _ => some s
    else none
  | .write val =>
    match s.pc tid with
    | .writing _ b =>
      match s.heap b with
      | some blk => some { s with heap := upd s.heap b (some { blk with val := val }),
                                  viol := s.viol + (if handles s b = 1 then 0 else 1),
                                  pc := upd s.pc tid .idle }
      | none => some { s with viol := s.viol + 1, pc := upd s.pc tid .idle }
    | .idle => some s
    | .freeing _ => none
  | .move d t =>
    if d < s.n ∧ t < s.n ∧ d ≠ t ∧ s.owner d = tid ∧ s.owner t = tid ∧ s.pc tid = .idle ∧ (s.slots d).isBlk = false then
      some (doMove s d t)
    else none
  | .swap a b =>
    if a < s.n ∧ b < s.n ∧ s.owner a = tid ∧ s.owner b = tid ∧ s.pc tid = .idle then
      some { s with slots := upd (upd s.slots a (s.slots b)) b (s.slots a) }
    else none
  | .setInl d tag val =>
    if d < s.n ∧ s.owner d = tid ∧ s.pc tid = .idle ∧ (s.slots d).isBlk = false then
      some { s with slots := upd s.slots d (.inl tag val) }
    else none
  | .give v tid' =>
    if v < s.n ∧ s.owner v = tid ∧ s.pc tid = .idle then some { s with owner := upd s.owner v tid' } else none
  | .clr t =>
    -- the model forgets the pointer at the decrement already; this step marks the point where the C++ object
    -- really loses it (see Stale.lean: reading the slot between `dec` and this point is a misuse)
    if t < s.n ∧ s.owner t = tid ∧ s.pc tid = .idle ∧ (s.slots t).isBlk = false then some s else none

/-- `n` slots, all empty and owned by thread 0, empty heap -/
def init (n : Nat) : St :=
  { n := n, heap := fun _ => none, freed := fun _ => 0, next := 0, slots := fun _ => .none,
    owner := fun _ => 0, pc := fun _ => .idle, viol := 0 }

/-- states reachable under some interleaving of some programs of any number of threads -/
inductive Reach (n : Nat) : St → Prop
  | init : Reach n (init n)
  | step {s s' tid a} : Reach n s → astep s tid a = some s' → Reach n s'

/-- a thread runs a list of steps without being interrupted -/
def runT (s : St) (tid : Nat) : List Act → Option St
  | [] => some s
  | a :: as => match astep s tid a with
    | some s' => runT s' tid as
    | none => none

/-- run a whole interleaving -/
def runSched (s : St) : List (Nat × Act) → Option St
  | [] => some s
  | (tid, a) :: r => match astep s tid a with
    | some s' => runSched s' r
    | none => none

/-! ### API calls as step sequences -/

inductive ApiOp
  -- String
  | sNew (d : Nat) (bytes : List Nat)          -- ~String(); new String(bytes, len)
  | sLit (d : Nat) (bytes : List Nat)          -- attach(mem, len)
  | sCopy (d s : Nat)                          -- ~String(); new String(other)
  | sAssign (d s : Nat)                        -- operator=(const String&)
  | sClear (d : Nat)
  | sAppend (d : Nat) (bytes : List Nat)       -- append(const char*, len)
  | sReserve (d n : Nat)
  | sDel (d : Nat)                             -- ~String(); new String
  | sSet (d : Nat) (bytes : List Nat)          -- d = String(bytes, len)   (assignment from a temporary)
  | sPrepend (d : Nat) (bytes : List Nat)      -- prepend(const char*, len): `String copy(*this); detach(0, newLen); …`
  | sResize (d n : Nat)                        -- resize(n) with n <= length(): detach(n, n)
  | sEdit (d kind a b : Nat)                   -- detach(len, len) + edit: 0 replace(char a, char b), 1 toLowerCase(), 2 operator char*()
  | sPrintf (d x : Nat)                        -- printf("%d", x): detach(0, 200)
  -- Variant
  | vCopy (d s : Nat)
  | vAssign (d s : Nat)
  | vClear (d : Nat)
  | vSetInt (d x : Nat)                        -- operator=(int)
  | vSetStr (d : Nat) (bytes : List Nat)       -- operator=(const String&)
  | vAppStr (d : Nat) (bytes : List Nat)       -- toString().append(bytes)   (mutable accessor)
  | vPush (d x : Nat)                          -- toList().append(Variant(x)) (mutable accessor)
  | vSwap (a b : Nat)
  | vSetList (d x : Nat)                       -- operator=(const List<Variant>&) with the one-element list [x]
  | vPushA (d x : Nat)                         -- toArray().append(Variant(x))
  | vSetArr (d x : Nat)                        -- operator=(const Array<Variant>&) with [x]
  | vPutM (d k x : Nat)                        -- toMap().append(String(k), Variant(x))
  | vSetMap (d k x : Nat)                      -- operator=(const HashMap<String, Variant>&) with {k: x}
  -- Xml::Variant
  | xCopy (d s : Nat)
  | xAssign (d s : Nat)
  | xClear (d : Nat)
  | xSetStr (d : Nat) (bytes : List Nat)       -- operator=(const String&)
  | xElem (d : Nat) (bytes : List Nat)         -- toElement().type = bytes   (mutable accessor)
  -- RefCount::Ptr
  | pNew (d x : Nat)                           -- d = new Obj(x)
  | pCopy (d s : Nat)
  | pAssign (d s : Nat)
  | pClear (d : Nat)                           -- d = Ptr()
  | pSwap (a b : Nat)
  | pLink (d s : Nat)                          -- d->next = s      (the handle embedded in the object d designates)
  | pNext (d : Nat)                            -- d = d->next      (the assigned handle lives in the object d releases)
  | pNextOf (d s : Nat)                        -- d = s->next
  -- round 7: constructors on a destroyed object and guarded edits that the earlier rounds did not drive
  | gNew (d tag : Nat) (inl : Bool) (val : List Nat) (cap : Nat)
      -- destructor, then a constructor that builds a fresh value: `String(usize capacity)` (tag 0, [], cap),
      -- `attach` to unterminated memory (inline, tag `tagStrU`), `Variant(const String&/List&/Array&/HashMap&)`,
      -- `Xml::Variant(const String&/Element&)` (a fresh box of that tag)
  | gEdit (d : Nat) (skip : Bool) (nv : List Nat)
      -- `detach(len, len)` + edit of the bytes to nv (`toUpperCase`); `operator const char*()` detaches only attached memory
      -- that is not terminated and changes no byte: nv = the bytes, `skip = constSkip st d` in the state in which the call starts
deriving Repr

def tagStr : Nat := 0
def tagVInt : Nat := 11
def tagVStr : Nat := 12
def tagVList : Nat := 13
def tagXText : Nat := 22
def tagXElem : Nat := 23
def tagVArr : Nat := 14
def tagVMap : Nat := 15
def tagObj : Nat := 30
/-- inline tag of attached String memory whose byte after the end is not 0 (`operator const char*()` detaches it) -/
def tagStrU : Nat := 1


def lowerByte (c : Nat) : Nat := if 65 ≤ c ∧ c ≤ 90 then c + 32 else c

/-- `HashMap::insert` at the end on the flat encoding [k1, v1, k2, v2, …]: an existing key keeps its place -/
def mapPut : List Nat → Nat → Nat → List Nat
  | k' :: v' :: r, k, v => if k' = k then k' :: v :: r else k' :: v' :: mapPut r k v
  | _, k, v => [k, v]

/-- `if(data->ref && Atomic::decrement(data->ref) == 0) delete …; data = &static` (or: destructor, then a
    constructor re-initialises the object) -/
def rel (d : Nat) : List Act := [.dec d, .free, .clr d]

/-- allocation sites of String data: constructor from (ptr, len), copy of unowned data, assignment of
    unowned data, detach(minCapacity) -/
def siteCtor : Nat := 0
def siteCopy : Nat := 1
def siteAssign : Nat := 2
def siteDetach : Nat := 3

/-- tag and content seen through a slot (`none` for a dangling pointer) -/
def view (s : St) (v : Nat) : Option (Nat × List Nat) :=
  match s.slots v with
  | .none => some (0, [])
  | .inl tag val => some (tag, val)
  | .blk b => match s.heap b with
    | some blk => some (blk.tag, blk.val)
    | none => none

def viewVal (s : St) (v : Nat) : List Nat := match view s v with | some (_, x) => x | none => []

def isNoneH (s : St) (v : Nat) : Bool := match s.slots v with | .none => true | _ => false
def blkTag (s : St) (v : Nat) : Option Nat :=
  match s.slots v with
  | .blk b => match s.heap b with | some blk => some blk.tag | none => none
  | _ => none
def blkCap (s : St) (v : Nat) : Nat :=
  match s.slots v with
  | .blk b => match s.heap b with | some blk => blk.cap | none => 0
  | _ => 0
def inlTag (s : St) (v : Nat) : Option Nat := match s.slots v with | .inl t _ => some t | _ => none

/-- `operator const char*()` does nothing unless the data is attached memory whose byte after the end is not 0 -/
def constSkip (s : St) (v : Nat) : Bool := !(inlTag s v == some tagStrU)

def decDigits (x : Nat) : List Nat := (toString x).toList.map Char.toNat

/-- counted share-assignment `inc; release old; store` (operator= of all four classes) -/
def shareAssign (tid d s : Nat) : List Act := [.inc (tmpT tid) s, .dec d, .free, .move d (tmpT tid)]

/-- Variant / Xml::Variant `operator=(const Variant&)` -/
def boxAssign (st : St) (tid d s : Nat) : List Act :=
  if d = s then []
  else match st.slots s with
    | .blk _ => shareAssign tid d s
    | .inl tag val => rel d ++ [.setInl d tag val]
    | .none => rel d

/-- release of a RefCount::Ptr slot: when it is the last handle of an object, the destructor of the
    object releases the embedded `next` handle (child first here; single-threaded the order of
    the two decrements is not observable) -/
def relP (st : St) (tid d : Nat) : Nat → List Act
  | 0 => rel d
  | fuel + 1 =>
    match st.slots d with
    | .blk b =>
      match st.heap b, st.slots (embSlot b) with
      | some blk, .blk _ =>
        -- a thread that does not own the embedded slot releases it with `takeF` after its decrement
        -- reached zero (the drivers insert those steps when they see the `freeing` state)
        if blk.ref = 1 ∧ st.owner (embSlot b) = tid then relP st tid (embSlot b) fuel ++ rel d else rel d
      | _, _ => rel d
    | _ => rel d

def relFuel : Nat := 64

/-- `inc T src; release d; d = T` with the cascade computed in the state after the increment -/
def ptrAssign (st : St) (tid d src : Nat) : List Act :=
  match st.slots src with
  | .blk _ =>
    match astep st tid (.inc (tmpT tid) src) with
    | some st1 => [.inc (tmpT tid) src] ++ relP st1 tid d relFuel ++ [.move d (tmpT tid)]
    | none => [.inc (tmpT tid) src]
  | _ => relP st tid d relFuel

/-- `d = v->next`: the handle embedded in the object that the own slot v designates is copied -/
def ptrAssignEmb (st : St) (tid d c v : Nat) : List Act :=
  match astep st tid (.incE (tmpT tid) c 0 v) with
  | some st1 => [.incE (tmpT tid) c 0 v] ++ relP st1 tid d relFuel ++ [.move d (tmpT tid)]
  | none => [.incE (tmpT tid) c 0 v]

/-- `d->next = src` by the thread that holds the ONLY handle of the object c (through its slot d): the
    embedded handle is taken out, released and replaced (`takeE` / `putE`) -/
def ptrLinkSole (st : St) (tid d c src : Nat) : List Act :=
  let first : List Act := (match st.slots src with | .blk _ => [.inc (tmpT tid) src] | _ => []) ++ [.takeE (tmpU tid) c 0 d]
  match runT st tid first with
  | some st1 => first ++ relP st1 tid (tmpU tid) relFuel ++ [.putE c 0 (tmpT tid) d]
  | none => first

def soleBlk (st : St) (d : Nat) : Option Nat :=
  match st.slots d with
  | .blk b => match st.heap b with | some blk => if blk.ref = 1 then some b else none | none => none
  | _ => none

def blkOf (st : St) (d : Nat) : Option Nat := match st.slots d with | .blk b => some b | _ => none

def embOf (st : St) (d : Nat) : Option Nat := match st.slots d with | .blk b => some (embSlot b) | _ => none

/-- capacity of the block `detach(…, min)` allocates for slot d when it does not write in place: a shared or unowned source is
    cloned tightly (`capTab siteDetach`), the only owner of a too small block may grow faster (`growTab`) -/
def detCap (st : St) (d min : Nat) : Nat :=
  match st.slots d with
  | .blk b => match st.heap b with
    | some blk => if blk.ref = 1 then st.growTab blk.cap min else st.capTab siteDetach min
    | none => st.capTab siteDetach min
  | _ => st.capTab siteDetach min

/-- the steps of an API call up to and including its plain read of the counter (if it has one) -/
def pre (st : St) (tid : Nat) : ApiOp → List Act
  | .sNew d bytes => rel d ++ [.alloc d tagStr bytes (st.capTab siteCtor bytes.length)]
  | .sLit d bytes => rel d ++ [.setInl d tagStr bytes]
  | .sCopy d s =>
    if d = s then [] else
    rel d ++ (match st.slots s with
      | .blk _ => [.inc d s]
      | .none => []
      | .inl _ val => [.alloc d tagStr val (st.capTab siteCopy val.length)])
  | .sAssign d s =>
    match st.slots s with
    | .blk _ => if st.assignSameSkip && (st.slots d == st.slots s) then [] else shareAssign tid d s
    | .none => if st.assignEmptyStatic then rel d else rel d ++ [.alloc d tagStr [] (st.capTab siteAssign 0)]
    | .inl _ val => rel d ++ [.alloc d tagStr val (st.capTab siteAssign val.length)]
  | .sClear d => [.readRef d true]
  | .sAppend d bytes => [.readRef d ((viewVal st d).length + bytes.length ≤ blkCap st d)]
  | .sReserve d n => [.readRef d (max n (viewVal st d).length ≤ blkCap st d)]
  | .sDel d => rel d
  | .sPrepend d bytes =>
    (match st.slots d with
      | .blk _ => [.inc (tmpU tid) d]
      | .none => []
      | .inl _ val => [.alloc (tmpU tid) tagStr val (st.capTab siteCopy val.length)]) ++
    [.readRef d ((viewVal st d).length + bytes.length ≤ blkCap st d)]
  | .sResize d n => [.readRef d (n ≤ blkCap st d)]
  | .sEdit d _ _ _ => [.readRef d true]
  | .sPrintf d _ => [.readRef d (200 ≤ blkCap st d)]
  | .sSet d bytes =>
    [.alloc (tmpU tid) tagStr bytes (st.capTab siteCtor bytes.length)] ++ shareAssign tid d (tmpU tid) ++ rel (tmpU tid)
  | .vCopy d s =>
    if d = s then [] else
    rel d ++ (match st.slots s with
      | .blk _ => [.inc d s]
      | .none => []
      | .inl tag val => [.setInl d tag val])
  | .vAssign d s => boxAssign st tid d s
  | .vClear d => rel d
  | .vSetInt d x => rel d ++ [.setInl d tagVInt [x]]
  | .vSetStr d _ => [.readRef d (blkTag st d == some tagVStr)]
  | .vAppStr d _ => [.readRef d (blkTag st d == some tagVStr)]
  | .vPush d _ => [.readRef d (blkTag st d == some tagVList)]
  | .vSetList d _ => [.readRef d (blkTag st d == some tagVList)]
  | .vPushA d _ => [.readRef d (blkTag st d == some tagVArr)]
  | .vSetArr d _ => [.readRef d (blkTag st d == some tagVArr)]
  | .vPutM d _ _ => [.readRef d (blkTag st d == some tagVMap)]
  | .vSetMap d _ _ => [.readRef d (blkTag st d == some tagVMap)]
  | .vSwap _ b =>
    -- Variant tmp = other;
    (match st.slots b with
      | .blk _ => [.inc (tmpU tid) b]
      | .none => []
      | .inl tag val => [.setInl (tmpU tid) tag val])
  | .xCopy d s =>
    if d = s then [] else
    rel d ++ (match st.slots s with
      | .blk _ => [.inc d s]
      | _ => [])
  | .xAssign d s => boxAssign st tid d s
  | .xClear d => rel d
  | .xSetStr d _ => [.readRef d (blkTag st d == some tagXText)]
  | .xElem d _ => [.readRef d (blkTag st d == some tagXElem)]
  | .pNew d x => [.alloc (tmpT tid) tagObj [x] 0] ++ relP st tid d relFuel ++ [.move d (tmpT tid)]
  | .pCopy d s =>
    if d = s then [] else
    relP st tid d relFuel ++ (match st.slots s with
      | .blk _ => [.inc d s]
      | _ => [])
  | .pAssign d s => ptrAssign st tid d s
  | .pClear d => relP st tid d relFuel
  | .pSwap a b => [.swap a b]
  | .pLink d s => match (if st.slots s = st.slots d then none else soleBlk st d), embOf st d with
    | some c, _ => ptrLinkSole st tid d c s
    | none, some e => ptrAssign st tid e s       -- the object is shared: only the owner of the embedded slot (single-threaded use)
    | none, none => [.move d d]                   -- null pointer dereference: rejected
  | .pNext d => match blkOf st d with
    | some c => ptrAssignEmb st tid d c d
    | none => [.move d d]
  | .pNextOf d s => match blkOf st s with
    | some c => ptrAssignEmb st tid d c s
    | none => [.move d d]
  | .gNew d tag inl val cap => rel d ++ (if inl then [.setInl d tag val] else [.alloc d tag val cap])
  | .gEdit d skip _ => if skip then [] else [.readRef d true]

def isWriting (st : St) (tid : Nat) : Bool := match st.pc tid with | .writing _ _ => true | _ => false

/-- clone with "allocate, copy, release the old block, store" (detach / mutable accessors) -/
def cloneAllocFirst (tid d tag : Nat) (val : List Nat) (cap : Nat) : List Act :=
  [.alloc (tmpT tid) tag val cap, .dec d, .free, .move d (tmpT tid)]

/-- clone with "clear(), allocate" (the operator=(T) of Variant / Xml::Variant) -/
def cloneReleaseFirst (d tag : Nat) (val : List Nat) : List Act :=
  [.dec d, .free, .alloc d tag val 0]

/-- the rest of the call, decided in the state right after `pre` (i.e. after the counter was read) -/
def post (st : St) (tid : Nat) : ApiOp → List Act
  | .sClear d => if isWriting st tid then [.write []] else rel d
  | .sAppend d bytes =>
    let nv := viewVal st d ++ bytes
    if isWriting st tid then [.write nv] else cloneAllocFirst tid d tagStr nv (detCap st d (nv.length))
  | .sReserve d n =>
    let v := viewVal st d
    if isWriting st tid then [.write v] else cloneAllocFirst tid d tagStr v (detCap st d ((max n v.length)))
  | .sPrepend d bytes =>
    let nv := bytes ++ viewVal st d
    (if isWriting st tid then [.write nv] else cloneAllocFirst tid d tagStr nv (detCap st d (nv.length))) ++ rel (tmpU tid)
  | .sResize d n =>
    let nv := (viewVal st d).take n
    if isWriting st tid then [.write nv] else cloneAllocFirst tid d tagStr nv (detCap st d (n))
  | .sEdit d kind a b =>
    let v := viewVal st d
    let nv := if kind = 0 then v.map (fun c => if c = a then b else c) else if kind = 1 then v.map lowerByte else v
    if isWriting st tid then [.write nv] else cloneAllocFirst tid d tagStr nv (detCap st d (nv.length))
  | .sPrintf d x =>
    if isWriting st tid then [.write (decDigits x)] else cloneAllocFirst tid d tagStr (decDigits x) (detCap st d (200))
  | .vSetStr d bytes => if isWriting st tid then [.write bytes] else cloneReleaseFirst d tagVStr bytes
  | .vPushA d x =>
    if isWriting st tid then [.write (viewVal st d ++ [x])]
    else cloneAllocFirst tid d tagVArr ((if blkTag st d == some tagVArr then viewVal st d else []) ++ [x]) 0
  | .vSetArr d x => if isWriting st tid then [.write [x]] else cloneReleaseFirst d tagVArr [x]
  | .vPutM d k x =>
    if isWriting st tid then [.write (mapPut (viewVal st d) k x)]
    else cloneAllocFirst tid d tagVMap (mapPut (if blkTag st d == some tagVMap then viewVal st d else []) k x) 0
  | .vSetMap d k x => if isWriting st tid then [.write [k, x]] else cloneReleaseFirst d tagVMap [k, x]
  | .vAppStr d bytes =>
    if isWriting st tid then [.write (viewVal st d ++ bytes)]
    else
      let conv := if blkTag st d == some tagVStr then viewVal st d
                  else if inlTag st d == some tagVInt then decDigits ((viewVal st d).headD 0)
                  else []
      cloneAllocFirst tid d tagVStr (conv ++ bytes) 0
  | .vPush d x =>
    if isWriting st tid then [.write (viewVal st d ++ [x])]
    else
      let conv := if blkTag st d == some tagVList then viewVal st d else []
      cloneAllocFirst tid d tagVList (conv ++ [x]) 0
  | .vSetList d x => if isWriting st tid then [.write [x]] else cloneReleaseFirst d tagVList [x]
  | .vSwap a b =>
    -- other = *this; *this = tmp; ~tmp
    boxAssign st tid b a ++
      (match st.slots (tmpU tid) with
        | .blk _ => shareAssign tid a (tmpU tid)
        | .inl tag val => rel a ++ [.setInl a tag val]
        | .none => rel a) ++ rel (tmpU tid)
  | .xSetStr d bytes => if isWriting st tid then [.write bytes] else cloneReleaseFirst d tagXText bytes
  | .xElem d bytes =>
    if isWriting st tid then [.write bytes]
    else if blkTag st d == some tagXElem then cloneAllocFirst tid d tagXElem bytes 0
    else cloneReleaseFirst d tagXElem bytes
  | .gEdit d skip nv =>
    -- only unterminated attached memory is detached by the conversion: never counted, so the plain read fails and it is cloned
    if isWriting st tid then [.write nv]
    else if skip then []
    else cloneAllocFirst tid d tagStr nv (detCap st d (nv.length))
  | _ => []

/-- single-threaded semantics of one API call: all its steps, uninterrupted, on thread `tid` -/
def apiStep (st : St) (tid : Nat) (op : ApiOp) : Option St :=
  match runT st tid (pre st tid op) with
  | some s1 => runT s1 tid (post s1 tid op)
  | none => none

def apiRun (st : St) (tid : Nat) : List ApiOp → Option St
  | [] => some st
  | op :: r => match apiStep st tid op with
    | some s' => apiRun s' tid r
    | none => none

end Nstd.Rc
