import Nstd.Rc.Model
/-
  Payloads with a FAMILY of embedded handles: the Variants inside a Variant list payload, the children of an
  Xml::Element payload.

  * `runC`: the step lists of Model.lean executed with the *destructor cascade*: when the thread is about to delete
    block c (`free` in state `freeing c`) it first adopts every handle embedded in c (`adoptF c k`), deletes c, and
    then releases each of them (`dec; free; clr`, recursively with the same cascade).  This is the order of
    `Variant::clear()` / `Xml::Variant::clear()`: decrement, destructor of the container (= destructors of its
    elements), `delete[]`; the position of the plain `delete[]` among the decrements of the elements is not observable.
  * `NOp`: every call of Model.lean (`flat`) plus the calls that create, copy and read embedded handles:
      `vPushV d s`   V[d].toList().append(V[s])
      `vGetV d s k`  V[d] = ((const Variant&)V[s]).toList()[k]   (d = s allowed: the assigned value lives in the payload
                                                                 that the assignment releases)
      `xAddC d s`    X[d].toElement().content.append(X[s])
      `xGetC d s k`  X[d] = k-th child of ((const Xml::Variant&)X[s]).toElement()
      `aPushV d s`, `aGetV d s k`  the same as `vPushV` / `vGetV` on an Array<Variant> payload (`toArray()`)
    and the list / element calls of Model.lean whose clone or in-place path has to copy or release the embedded
    handles (`vPush`, `vSetList`, `xElem`).
  Core Lean only (the driver links this file).
-/
namespace Nstd.Rc

/-- number of family indices that can lie inside `n` slots -/
def famBound (n : Nat) : Nat := (n - embBase) / maxBlocks + 1

/-- the family indices of block c whose slot holds a handle -/
def embKs (s : St) (c : Nat) : List Nat :=
  (List.range (famBound s.n)).filter (fun k => decide (embSlotK c k < s.n) && (s.slots (embSlotK c k)).isBlk)

/-- block that the next step deletes, if it is a `free` of a thread whose decrement reached zero -/
def dying (s : St) (tid : Nat) : Act → Option Nat
  | .free => match s.pc tid with
    | .freeing c => some c
    | _ => none
  | _ => none

def adoptAll (s : St) (c : Nat) : List Act := (embKs s c).map (fun k => Act.adoptF c k)

def relEmb (c : Nat) : List Nat → List Act
  | [] => []
  | k :: ks => rel (embSlotK c k) ++ relEmb c ks

/-- run a step list with the destructor cascade (fuel: every step costs one unit) -/
def runC : Nat → St → Nat → List Act → Option St
  | _, s, _, [] => some s
  | 0, _, _, _ :: _ => none
  | fuel + 1, s, tid, a :: r =>
    match dying s tid a with
    | some c =>
      match runT s tid (adoptAll s c ++ [.free]) with
      | some s1 => runC fuel s1 tid (relEmb c (embKs s c) ++ r)
      | none => none
    | none =>
      match astep s tid a with
      | some s1 => runC fuel s1 tid r
      | none => none

/-- enough for every list of the calls below: each handle slot is released at most once in a cascade -/
def cascFuel (s : St) (acts : List Act) : Nat := 2 * acts.length + 8 * s.n + 8

inductive NOp
  | flat (op : ApiOp)
  | vPushV (d s : Nat)
  | vGetV (d s k : Nat)
  | xAddC (d s : Nat)
  | xGetC (d s k : Nat)
  | aPushV (d s : Nat)      -- V[d].toArray().append(V[s])
  | aGetV (d s k : Nat)     -- V[d] = ((const Variant&)V[s]).toArray()[k]
  -- the String inside a Variant box as a REAL handle (embedded slot 0 of a box of kind `tagVStrN`), cross-kind sharing:
  | vSetS (d s : Nat)       -- V[d] = S[s]                       (operator=(const String&) with a String VARIABLE: the inner String shares its data)
  | sFromV (d s : Nat)      -- S[d] = ((const Variant&)V[s]).toString()   (the returned String shares the data of the inner String)
  | vAppS (d : Nat) (bytes : List Nat)   -- V[d].toString().append(bytes): in-place write THROUGH the embedded handle, guarded twice
deriving Repr

/-- a string box whose String is an embedded handle (slot 0) to a String data block; its own content is empty -/
def tagVStrN : Nat := 16


def blkOfTag (st : St) (d tag : Nat) : Option Nat :=
  match st.slots d with
  | .blk b => match st.heap b with
    | some blk => if blk.tag = tag then some b else none
    | none => none
  | _ => none

/-- copy the embedded handles `ks` of block c (held through the own slot v) into the fresh block c' (held through the
    own slot w): the copy constructors of the elements, one increment each -/
def copyEmb (tid c v c' w : Nat) : List Nat → List Act
  | [] => []
  | k :: ks => [.incE (tmpU tid) c k v, .putE c' k (tmpU tid) w] ++ copyEmb tid c v c' w ks

/-- the element appended by `append(const Variant&)` / `append(const Xml::Variant&)`: its flat value and the steps
    that store the copied handle into slot k of block c (held through the own slot d) -/
def elemVal (st : St) (s : Nat) : Nat :=
  match st.slots s with
  | .inl _ v => v.headD 0
  | _ => 0

def storeElem (st : St) (tid c k d s : Nat) : List Act :=
  match st.slots s with
  | .blk _ => [.inc (tmpU tid) s, .putE c k (tmpU tid) d]
  | _ => []

/-- mutable container access + append: in place for the sole owner, otherwise clone (copying the embedded handles),
    release the old payload, store the new one; `x` = flat value of the new element, `s` = the handle it copies -/
def storeOpt (st : St) (tid c k d : Nat) : Option Nat → List Act
  | some s => storeElem st tid c k d s
  | none => []

def appendN (st : St) (tid d tag : Nat) (x : Nat) (s : Option Nat) (isList : Bool) : List Act :=
  let store (c k : Nat) : List Act := storeOpt st tid c k d s
  let val := viewVal st d
  let nv := if isList then val ++ [x] else val
  if isWriting st tid then
    -- in place (the successful read was made on a container of this kind)
    match blkOfTag st d tag with
    | some c => [.write nv] ++ store c (if isList then val.length else (embKs st c).length)
    | none => [.write val]
  else match blkOfTag st d tag with
    | some c =>
      [.alloc (tmpT tid) tag nv 0] ++ copyEmb tid c d st.next (tmpT tid) (embKs st c) ++
        [.dec d, .free, .move d (tmpT tid)] ++ store st.next (if isList then val.length else (embKs st c).length)
    | none =>
      -- not a container of this kind: a fresh one (allocated before the old value is released: not observable)
      [.alloc (tmpT tid) tag (if isList then [x] else []) 0, .dec d, .free, .move d (tmpT tid)] ++ store st.next 0

/-- `d = element k of the container that s designates` (counted share-assignment from an embedded handle) -/
def getEmb (st : St) (tid d s k tag : Nat) (isList : Bool) : List Act :=
  match blkOfTag st s tag with
  | some c =>
    if (st.slots (embSlotK c k)).isBlk then [.incE (tmpT tid) c k s, .dec d, .free, .move d (tmpT tid)]
    else if isList ∧ k < (viewVal st s).length then
      let x := (viewVal st s).getD k 0
      rel d ++ [.setInl d tagVInt [x]]
    else [.move d d]                 -- no such element: rejected
  | none => [.move d d]

def preN (st : St) (tid : Nat) : NOp → List Act
  | .flat op => pre st tid op
  | .vPushV d s =>
    -- a Variant is not appended to its own list (cycle), a null Variant is not exercised: rejected
    if d = s ∨ isNoneH st s = true then [.move d d] else [.readRef d (blkTag st d == some tagVList)]
  | .xAddC d s =>
    if d = s ∨ (st.slots s).isBlk = false then [.move d d] else [.readRef d (blkTag st d == some tagXElem)]
  | .vGetV d s k => getEmb st tid d s k tagVList true
  | .aPushV d s =>
    if d = s ∨ isNoneH st s = true then [.move d d] else [.readRef d (blkTag st d == some tagVArr)]
  | .aGetV d s k => getEmb st tid d s k tagVArr true
  | .xGetC d s k => getEmb st tid d s k tagXElem false
  | .vSetS d _ => [.readRef d (blkTag st d == some tagVStrN)]
  | .vAppS d _ => [.readRef d (blkTag st d == some tagVStrN)]
  | .sFromV d s =>
    -- `String tmp = v.toString()` (copy of the inner String: one increment), `S[d] = tmp`, `~tmp`
    match blkOfTag st s tagVStrN with
    | some c => if (st.slots (embSlotK c 0)).isBlk then [.incE (tmpU tid) c 0 s] ++ shareAssign tid d (tmpU tid) ++ rel (tmpU tid) else rel d
    | none => rel d

/-- copy construction of the String inside the fresh box c' (held through the own slot w) from the String variable s -/
def innerFromVar (st : St) (tid c' w s : Nat) : List Act :=
  match st.slots s with
  | .blk _ => [.inc (tmpU tid) s, .putE c' 0 (tmpU tid) w]
  | .none => []
  | .inl _ val => [.alloc (tmpU tid) tagStr val (st.capTab siteCopy val.length), .putE c' 0 (tmpU tid) w]

/-- `String::operator=` on the String inside box c, by the thread that holds the ONLY handle of c (through its slot d): the
    embedded handle is taken out, released and replaced -/
def innerAssign (st : St) (tid c d s : Nat) : List Act :=
  match st.slots s with
  | .blk _ => [.inc (tmpT tid) s, .takeE (tmpU tid) c 0 d, .dec (tmpU tid), .free, .clr (tmpU tid), .putE c 0 (tmpT tid) d]
  | _ => [.takeE (tmpU tid) c 0 d, .dec (tmpU tid), .free, .clr (tmpU tid),
          .alloc (tmpT tid) tagStr (viewVal st s) (st.capTab siteAssign (viewVal st s).length), .putE c 0 (tmpT tid) d]

/-- bytes of the String inside a nested string box -/
def innerVal (st : St) (c : Nat) : List Nat := viewVal st (embSlotK c 0)

def innerSole (st : St) (c : Nat) : Bool :=
  match st.slots (embSlotK c 0) with
  | .blk b => (match st.heap b with | some blk => blk.ref == 1 | none => false)
  | _ => false

/-- release all embedded handles of block c (the sole owner, through its slot d): `List::clear()` of an in-place
    `operator=(const List&)` -/
def dropEmb (tid c d : Nat) : List Nat → List Act
  | [] => []
  | k :: ks => [.takeE (tmpU tid) c k d] ++ rel (tmpU tid) ++ dropEmb tid c d ks

def postN (st : St) (tid : Nat) : NOp → List Act
  | .flat (.vPush d x) => appendN st tid d tagVList x none true
  | .flat (.vSetList d x) =>
    if isWriting st tid then
      [.write [x]] ++ (match blkOfTag st d tagVList with | some c => dropEmb tid c d (embKs st c) | none => [])
    else cloneReleaseFirst d tagVList [x]
  | .flat (.vPushA d x) => appendN st tid d tagVArr x none true
  | .flat (.vSetArr d x) =>
    if isWriting st tid then
      [.write [x]] ++ (match blkOfTag st d tagVArr with | some c => dropEmb tid c d (embKs st c) | none => [])
    else cloneReleaseFirst d tagVArr [x]
  | .flat (.xElem d bytes) =>
    if isWriting st tid then [.write bytes]
    else match blkOfTag st d tagXElem with
      | some c =>
        [.alloc (tmpT tid) tagXElem bytes 0] ++ copyEmb tid c d st.next (tmpT tid) (embKs st c) ++
          [.dec d, .free, .move d (tmpT tid)]
      | none => cloneReleaseFirst d tagXElem bytes
  | .flat op => post st tid op
  | .vPushV d s => appendN st tid d tagVList (elemVal st s) (some s) true
  | .xAddC d s => appendN st tid d tagXElem 0 (some s) false
  | .aPushV d s => appendN st tid d tagVArr (elemVal st s) (some s) true
  | .vGetV .. => []
  | .xGetC .. => []
  | .aGetV .. => []
  | .sFromV .. => []
  | .vSetS d s =>
    if isWriting st tid then
      match blkOfTag st d tagVStrN with
      | some c => [.write []] ++ innerAssign st tid c d s         -- `*(String*)(data + 1) = other` through the embedded handle
      | none => [.write (viewVal st d)]
    else [.dec d, .free, .alloc d tagVStrN [] 0] ++ innerFromVar st tid st.next d s
  | .vAppS d bytes =>
    if isWriting st tid then
      match blkOfTag st d tagVStrN with
      | some c =>
        -- sole owner of the box: the String inside is reached through the embedded handle (taken into a scratch slot and put
        -- back: nobody else can reach the box); `append` = `detach` on it: in place only if the String data has one handle too
        [.write [], .takeE (tmpU tid) c 0 d] ++
          (if innerSole st c then [.readRef (tmpU tid) true, .write (innerVal st c ++ bytes)]
           else [.alloc (tmpT tid) tagStr (innerVal st c ++ bytes) (detCap st (embSlotK c 0) (innerVal st c ++ bytes).length),
                 .dec (tmpU tid), .free, .move (tmpU tid) (tmpT tid)]) ++
          [.putE c 0 (tmpU tid) d]
      | none => [.write (viewVal st d)]
    else match blkOfTag st d tagVStrN with
      | some c =>
        -- shared box: clone the box (copy of the String inside: one increment), release the old one (it survives: it was shared),
        -- then detach the String inside the new box (its data now has at least two handles: cloned)
        [.alloc (tmpT tid) tagVStrN [] 0, .incE (tmpU tid) c 0 d, .putE st.next 0 (tmpU tid) (tmpT tid), .dec d, .free,
         .move d (tmpT tid), .takeE (tmpU tid) st.next 0 d,
         .alloc (tmpT tid) tagStr (innerVal st c ++ bytes) (detCap st (embSlotK c 0) (innerVal st c ++ bytes).length),
         .dec (tmpU tid), .free, .move (tmpU tid) (tmpT tid), .putE st.next 0 (tmpU tid) d]
      | none =>
        [.alloc (tmpT tid) tagVStrN [] 0, .dec d, .free, .move d (tmpT tid),
         .alloc (tmpU tid) tagStr bytes (st.capTab siteCtor bytes.length), .putE st.next 0 (tmpU tid) d]

/-- single-threaded semantics of one call, with the destructor cascade -/
def apiStepN (st : St) (tid : Nat) (op : NOp) : Option St :=
  match runC (cascFuel st (preN st tid op)) st tid (preN st tid op) with
  | some s1 => runC (cascFuel s1 (postN s1 tid op)) s1 tid (postN s1 tid op)
  | none => none

def apiRunN (st : St) (tid : Nat) : List NOp → Option St
  | [] => some st
  | op :: r => match apiStepN st tid op with
    | some s' => apiRunN s' tid r
    | none => none

end Nstd.Rc
