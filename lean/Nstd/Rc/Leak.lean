import Nstd.Rc.NestedLemmas
import Nstd.Rc.PtrTotal
/-
  Cascade completeness: no handle is left inside a released block.

  `Orphan s e`: the embedded slot e holds a handle although its enclosing block is released.  While a destructor
  cascade is running such slots exist (the dying container is deleted, its elements are released next), and each
  of them has its `dec e` PENDING in the step list of the thread that adopted it.  `stepC` is one step of a thread
  with the cascade expansion (`runC` = iteration of `stepC`); `stepC_pend` shows that "every orphan has a pending
  decrement" is preserved by every step of every thread, provided the step lists receive handles only into
  top-level slots (`LowRecv`: all calls of Model.lean / Nested.lean except `d->next = s` on a SHARED object; `putE`
  stores into an embedded slot, but only of a block whose only handle the thread holds, i.e. a live one).
  Hence: whenever no call is in progress, no released block contains a handle — single-threaded after every
  `apiRunN` history (`Props.nested_no_leak`) and for any interleaving of any number of threads (`SReach`).
-/
namespace Nstd.Rc

/-- the block whose family the embedded slot e belongs to -/
def enclOf (e : Nat) : Nat := (e - embBase) % maxBlocks

theorem enclOf_embSlotK {c k : Nat} (hc : c < maxBlocks) : enclOf (embSlotK c k) = c := by
  simp only [enclOf, embSlotK, embBase, nSlots, nVars, nThreads, maxBlocks] at *
  omega

theorem embSlotK_enclOf {e : Nat} (he : embBase ≤ e) : e = embSlotK (enclOf e) ((e - embBase) / maxBlocks) := by
  simp only [enclOf, embSlotK, embBase, nSlots, nVars, nThreads, maxBlocks] at *
  omega

/-- slots that may RECEIVE a pointer by the step (`putE` is guarded by the sole handle of a live block) -/
def recv : Act → List Nat
  | .inc t _ => [t]
  | .alloc t _ _ _ => [t]
  | .move d _ => [d]
  | .swap a b => [a, b]
  | .incE t _ _ _ => [t]
  | .takeE t _ _ _ => [t]
  | .takeF t _ _ => [t]
  | _ => []

def lowRecvB (acts : List Act) : Bool := acts.all (fun a => (recv a).all (fun y => decide (y < embBase)))

def LowRecv (acts : List Act) : Prop := ∀ a, a ∈ acts → ∀ y, y ∈ recv a → y < embBase

theorem lowRecv_of_B {acts : List Act} (h : lowRecvB acts = true) : LowRecv acts := by
  intro a ha y hy
  simp only [lowRecvB, List.all_eq_true, decide_eq_true_eq] at h
  exact h a ha y hy

theorem recv_sub_writes (a : Act) : ∀ y, y ∈ recv a → y ∈ writes a := by
  cases a <;> simp [recv, writes]

theorem lowRecv_of_lowB {acts : List Act} (h : lowB acts = true) : LowRecv acts :=
  fun a ha y hy => lowList_of_lowB h a ha y (recv_sub_writes a y hy)

/-- a handle left in an embedded slot of a released (or never allocated) block -/
def Orphan (s : St) (e : Nat) : Prop :=
  embBase ≤ e ∧ e < s.n ∧ (s.slots e).isBlk = true ∧ s.heap (enclOf e) = none

/-- a slot that does not receive: if it holds a pointer afterwards it held one before, unless it is the target of a
    `putE` (embedded slot of a block whose only handle the thread holds) -/
theorem astep_isBlk_back {s s' : St} {tid e : Nat} {a : Act} (hs : astep s tid a = some s') (hr : e ∉ recv a)
    (hb : (s'.slots e).isBlk = true) :
    (s.slots e).isBlk = true ∨ ∃ c k t v, a = .putE c k t v ∧ e = embSlotK c k ∧ soleVia s tid v c ∧ c < maxBlocks := by
  by_cases hw : e ∈ writes a
  · cases a <;> simp only [writes, recv, List.mem_cons, List.not_mem_nil, or_false, not_or, List.mem_singleton] at hw hr
    case inc t src => exact absurd hw hr
    case alloc t tag val cap => exact absurd hw hr
    case setInl d tag val =>
      subst hw
      simp only [astep] at hs; split at hs <;> first | (cases hs; done) | (cases hs; simp [Handle.isBlk] at hb)
    case incE t c k v => exact absurd hw hr
    case swap a b => exact absurd hw (by intro h; rcases h with h | h <;> simp_all)
    case dec t =>
      subst hw
      simp only [astep] at hs
      (repeat' split at hs) <;>
        first
        | (cases hs; done)
        | (cases hs; left; exact hb)
        | (cases hs; simp [Handle.isBlk] at hb)
    case move d t =>
      rcases hw with hw | hw
      · exact absurd hw hr
      · subst hw
        simp only [astep] at hs; split at hs
        case isFalse => cases hs
        case isTrue hc => cases hs; simp [doMove, Handle.isBlk] at hb
    case takeE t c k v =>
      rcases hw with hw | hw
      · exact absurd hw hr
      · subst hw
        simp only [astep] at hs; split at hs
        case isFalse => cases hs
        case isTrue hc => cases hs; simp [doMove, Handle.isBlk] at hb
    case takeF t c k =>
      rcases hw with hw | hw
      · exact absurd hw hr
      · subst hw
        simp only [astep] at hs; split at hs
        case isFalse => cases hs
        case isTrue hc => cases hs; simp [doMove, Handle.isBlk] at hb
    case putE c k t v =>
      simp only [astep] at hs; split at hs
      case isFalse => cases hs
      case isTrue hc =>
        rcases hw with hw | hw
        · right; exact ⟨c, k, t, v, rfl, hw, hc.2.2.2.2.2.2.2.1, hc.2.2.2.2.2.2.2.2⟩
        · subst hw; cases hs
          have : e ≠ embSlotK c k := hc.2.2.1
          simp [doMove, Handle.isBlk] at hb
  · left; rw [← astep_slots_frame hs hw]; exact hb

theorem upd_some_none {f : Nat → Option Block} {b x : Nat} {v : Block} (h : upd f b (some v) x = none) : f x = none := by
  by_cases e : x = b
  · subst e; simp at h
  · rwa [upd_other _ _ _ _ e] at h

/-- a block is released only by the `free` of the thread whose decrement reached zero -/
theorem astep_heap_none_back {s s' : St} {tid x : Nat} {a : Act} (hs : astep s tid a = some s') (hn : s'.heap x = none) :
    s.heap x = none ∨ (a = .free ∧ s.pc tid = .freeing x) := by
  have incC : ∀ t src, (doInc s t src).heap x = none → s.heap x = none := by
    intro t src h
    simp only [doInc] at h
    (repeat' split at h) <;> first | exact h | exact upd_some_none h
  cases a <;> simp only [astep] at hs
  case free =>
    cases hp : s.pc tid with
    | idle => simp only [hp] at hs; cases hs; left; exact hn
    | writing t b => simp only [hp] at hs; cases hs
    | freeing b =>
      simp only [hp] at hs
      by_cases e : x = b
      · subst e; right; exact ⟨rfl, rfl⟩
      · left
        split at hs <;> cases hs
        · simp only [upd_other _ _ _ _ e] at hn; exact hn
        · exact hn
  case inc t src => left; split at hs <;> first | (cases hs; done) | (cases hs; exact incC _ _ hn)
  case incE t c k v => left; split at hs <;> first | (cases hs; done) | (cases hs; exact incC _ _ hn)
  all_goals (left; (repeat' split at hs) <;>
    first | (cases hs; done) | (cases hs; exact hn) | (cases hs; exact upd_some_none hn))

theorem astep_dec_clears {s s' : St} {tid e : Nat} (inv : Inv s) (hs : astep s tid (.dec e) = some s') :
    (s'.slots e).isBlk = false := by
  simp only [astep] at hs
  split at hs
  case isFalse => cases hs
  case isTrue hc =>
    cases hsl : s.slots e with
    | none => simp only [hsl] at hs; cases hs; simp [Handle.isBlk]
    | inl tag val => simp only [hsl] at hs; cases hs; simp [Handle.isBlk]
    | blk b =>
      obtain ⟨blk, hblk, hpos⟩ := inv.ref_pos hc.1 hsl
      have hr0 : ¬ blk.ref = 0 := by omega
      simp only [hsl, hblk, hr0, if_false] at hs; cases hs
      simp [Handle.isBlk]

/-- one atomic step: an orphan afterwards was an orphan before (and the step was not its decrement), or the step is
    the `free` of its enclosing block -/
theorem astep_orphan {s s' : St} {tid e : Nat} {a : Act} (inv : Inv s) (hs : astep s tid a = some s')
    (hl : ∀ y, y ∈ recv a → y < embBase) (ho : Orphan s' e) :
    (Orphan s e ∧ a ≠ .dec e) ∨
      (a = .free ∧ s.pc tid = .freeing (enclOf e) ∧ embBase ≤ e ∧ e < s.n ∧ (s.slots e).isBlk = true) := by
  obtain ⟨h1, h2, h3, h4⟩ := ho
  have hn := astep_n hs
  rw [hn] at h2
  have hr : e ∉ recv a := fun h => by have := hl e h; omega
  have hblk : (s.slots e).isBlk = true := by
    rcases astep_isBlk_back hs hr h3 with h | ⟨c, k, t, v, ha, he, hsole, hc⟩
    · exact h
    · exfalso
      subst ha; subst he
      rw [enclOf_embSlotK hc] at h4
      obtain ⟨_, _, _, blk, hb, _⟩ := hsole
      rcases astep_heap_none_back hs h4 with h | ⟨h, _⟩
      · rw [hb] at h; cases h
      · cases h
  rcases astep_heap_none_back hs h4 with h | ⟨ha, hp⟩
  · left
    refine ⟨⟨h1, h2, hblk, h⟩, ?_⟩
    intro ha; subst ha
    rw [astep_dec_clears inv hs] at h3; cases h3
  · right; exact ⟨ha, hp, h1, h2, hblk⟩

/-! ### one step of a thread with the cascade expansion -/

def stepC (s : St) (tid : Nat) : List Act → Option (St × List Act)
  | [] => none
  | a :: r =>
    match dying s tid a with
    | some c =>
      match runT s tid (adoptAll s c ++ [.free]) with
      | some s1 => some (s1, relEmb c (embKs s c) ++ r)
      | none => none
    | none =>
      match astep s tid a with
      | some s1 => some (s1, r)
      | none => none

theorem runC_succ (fuel : Nat) (s : St) (tid : Nat) (a : Act) (r : List Act) :
    runC (fuel + 1) s tid (a :: r) =
      match stepC s tid (a :: r) with
      | some (s1, r1) => runC fuel s1 tid r1
      | none => none := by
  simp only [runC, stepC]
  cases dying s tid a with
  | some c =>
    simp only []
    cases runT s tid (adoptAll s c ++ [.free]) <;> rfl
  | none =>
    simp only []
    cases astep s tid a <;> rfl

theorem runT_adopt_same {tid c : Nat} (ks : List Nat) {s s' : St}
    (hr : runT s tid (ks.map (fun k => Act.adoptF c k)) = some s') :
    s'.slots = s.slots ∧ s'.heap = s.heap ∧ s'.n = s.n ∧ s'.pc = s.pc := by
  induction ks generalizing s with
  | nil => simp only [List.map_nil, runT, Option.some.injEq] at hr; subst hr; exact ⟨rfl, rfl, rfl, rfl⟩
  | cons k r ih =>
    simp only [List.map_cons, runT] at hr
    cases h1 : astep s tid (.adoptF c k) with
    | none => simp only [h1] at hr; cases hr
    | some s1 =>
      simp only [h1] at hr
      obtain ⟨a1, a2, a3, a4⟩ := ih hr
      simp only [astep] at h1
      split at h1
      · cases h1; exact ⟨a1, a2, a3, a4⟩
      · cases h1

theorem dec_mem_relEmb {c k : Nat} {ks : List Nat} (h : k ∈ ks) : Act.dec (embSlotK c k) ∈ relEmb c ks := by
  induction ks with
  | nil => cases h
  | cons k' r ih =>
    simp only [relEmb, rel, List.cons_append, List.nil_append]
    rcases List.mem_cons.mp h with e | e
    · subst e; exact List.mem_cons_self ..
    · exact List.mem_cons_of_mem _ (List.mem_cons_of_mem _ (List.mem_cons_of_mem _ (ih e)))

theorem lowRecv_relEmb (c : Nat) (ks : List Nat) : LowRecv (relEmb c ks) := by
  induction ks with
  | nil => intro a ha; cases ha
  | cons k r ih =>
    intro a ha y hy
    simp only [relEmb, rel, List.cons_append, List.nil_append, List.mem_cons] at ha
    rcases ha with e | e | e | e
    · subst e; simp [recv] at hy
    · subst e; simp [recv] at hy
    · subst e; simp [recv] at hy
    · exact ih a e y hy

theorem inv_runT {tid : Nat} (acts : List Act) {s s' : St} (h : Inv s) (hr : runT s tid acts = some s') : Inv s' := by
  induction acts generalizing s with
  | nil => simp only [runT, Option.some.injEq] at hr; subst hr; exact h
  | cons a r ih =>
    simp only [runT] at hr
    cases ha : astep s tid a with
    | none => simp only [ha] at hr; cases hr
    | some s1 => simp only [ha] at hr; exact ih (inv_astep h ha) hr

/-- the head of a cascade (adopt the embedded handles, delete the block): every new orphan is one of the adopted
    slots and has its decrement in the inserted list -/
theorem cascade_head_orphan {s s1 : St} {tid c e : Nat} (inv : Inv s) (hp : s.pc tid = .freeing c)
    (hr : runT s tid (adoptAll s c ++ [.free]) = some s1) (ho : Orphan s1 e) :
    Orphan s e ∨ Act.dec e ∈ relEmb c (embKs s c) := by
  rw [runT_append] at hr
  cases h0 : runT s tid (adoptAll s c) with
  | none => simp only [h0, Option.bind] at hr; cases hr
  | some s0 =>
    simp only [h0, Option.bind, runT] at hr
    have inv0 := inv_runT _ inv h0
    obtain ⟨e1, e2, e3, e4⟩ := runT_adopt_same _ h0
    cases h1 : astep s0 tid .free with
    | none => simp only [h1] at hr; cases hr
    | some s2 =>
      simp only [h1, Option.some.injEq] at hr; subst hr
      rcases astep_orphan inv0 h1 (by intro y hy; simp [recv] at hy) ho with ⟨⟨a1, a2, a3, a4⟩, _⟩ | ⟨_, b2, b3, b4, b5⟩
      · left; rw [e1] at a3; rw [e2] at a4; rw [e3] at a2; exact ⟨a1, a2, a3, a4⟩
      · right
        rw [e4, hp] at b2
        injection b2 with b2
        rw [e1] at b5; rw [e3] at b4
        have hk := embSlotK_enclOf b3
        rw [← b2] at hk
        rw [hk]
        apply dec_mem_relEmb
        simp only [embKs, List.mem_filter, List.mem_range, Bool.and_eq_true, decide_eq_true_eq]
        rw [← hk]
        refine ⟨?_, b4, b5⟩
        simp only [famBound, embBase, nSlots, nVars, nThreads, maxBlocks] at *
        omega

/-- one step of a thread (with the cascade expansion) keeps "every orphan has a pending decrement — in this thread's
    list or elsewhere (Q)" -/
theorem stepC_pend {n : Nat} {s s1 : St} {tid : Nat} {acts r1 : List Act} {Q : Nat → Prop} (hreach : Reach n s)
    (hl : LowRecv acts) (hp : ∀ e, Orphan s e → Act.dec e ∈ acts ∨ Q e) (hs : stepC s tid acts = some (s1, r1)) :
    Reach n s1 ∧ LowRecv r1 ∧ ∀ e, Orphan s1 e → Act.dec e ∈ r1 ∨ Q e := by
  have inv := inv_reach hreach
  cases acts with
  | nil => simp only [stepC] at hs; cases hs
  | cons a r =>
    have hlr : LowRecv r := fun b hb => hl b (List.mem_cons_of_mem _ hb)
    simp only [stepC] at hs
    cases hd : dying s tid a with
    | some c =>
      obtain ⟨ha, hpc⟩ := dying_some hd
      subst ha
      simp only [hd] at hs
      cases h1 : runT s tid (adoptAll s c ++ [.free]) with
      | none => simp only [h1] at hs; cases hs
      | some s2 =>
        simp only [h1, Option.some.injEq, Prod.mk.injEq] at hs
        obtain ⟨e1, e2⟩ := hs; subst e1; subst e2
        refine ⟨reach_runT _ hreach h1, ?_, ?_⟩
        · intro b hb
          rcases List.mem_append.mp hb with h | h
          · exact lowRecv_relEmb _ _ b h
          · exact hlr b h
        · intro e ho
          rcases cascade_head_orphan inv hpc h1 ho with h | h
          · rcases hp e h with h' | h'
            · left
              rcases List.mem_cons.mp h' with x | x
              · cases x
              · exact List.mem_append_right _ x
            · right; exact h'
          · left; exact List.mem_append_left _ h
    | none =>
      simp only [hd] at hs
      cases h1 : astep s tid a with
      | none => simp only [h1] at hs; cases hs
      | some s2 =>
        simp only [h1, Option.some.injEq, Prod.mk.injEq] at hs
        obtain ⟨e1, e2⟩ := hs; subst e1; subst e2
        refine ⟨Reach.step hreach h1, hlr, ?_⟩
        intro e ho
        rcases astep_orphan inv h1 (hl a (List.mem_cons_self ..)) ho with ⟨h, hne⟩ | ⟨ha, hpc, _⟩
        · rcases hp e h with h' | h'
          · left
            rcases List.mem_cons.mp h' with x | x
            · exact absurd x.symm hne
            · exact x
          · right; exact h'
        · exfalso
          subst ha
          simp only [dying, hpc] at hd
          cases hd

/-- a whole step list run with the cascade: if every orphan had its decrement pending, none is left at the end -/
theorem runC_no_orphan {n tid : Nat} (fuel : Nat) : ∀ (acts : List Act) {s s' : St}, Reach n s → LowRecv acts →
    (∀ e, Orphan s e → Act.dec e ∈ acts) → runC fuel s tid acts = some s' → ∀ e, ¬ Orphan s' e := by
  induction fuel with
  | zero =>
    intro acts s s' _ _ hp hr
    cases acts with
    | nil =>
      simp only [runC, Option.some.injEq] at hr; subst hr
      intro e ho; cases hp e ho
    | cons a r => simp only [runC] at hr; cases hr
  | succ f ih =>
    intro acts s s' hreach hl hp hr
    cases acts with
    | nil =>
      simp only [runC, Option.some.injEq] at hr; subst hr
      intro e ho; cases hp e ho
    | cons a r =>
      rw [runC_succ] at hr
      cases h1 : stepC s tid (a :: r) with
      | none => simp only [h1] at hr; cases hr
      | some p =>
        obtain ⟨s1, r1⟩ := p
        simp only [h1] at hr
        obtain ⟨x1, x2, x3⟩ := stepC_pend (Q := fun _ => False) hreach hl (fun e ho => Or.inl (hp e ho)) h1
        exact ih r1 x1 x2 (fun e ho => (x3 e ho).resolve_right id) hr

/-! ### the step lists of the calls receive handles only into top-level slots -/

theorem lowRecvB_append (a b : List Act) : lowRecvB (a ++ b) = (lowRecvB a && lowRecvB b) := by
  simp [lowRecvB]

theorem lowRecvB_cons (a : Act) (r : List Act) :
    lowRecvB (a :: r) = ((recv a).all (fun y => decide (y < embBase)) && lowRecvB r) := by simp [lowRecvB]

theorem lowRecvB_nil : lowRecvB [] = true := rfl

theorem lowRecvB_rel (d : Nat) : lowRecvB (rel d) = true := rfl

theorem lowRecvB_relP (st : St) (tid : Nat) (fuel : Nat) : ∀ d, lowRecvB (relP st tid d fuel) = true := by
  induction fuel with
  | zero => intro d; rfl
  | succ f ih =>
    intro d
    simp only [relP]
    (repeat' split) <;> first | rfl | (rw [lowRecvB_append, ih]; rfl)

theorem lowU {tid : Nat} (h : tid < nThreads) : tmpU tid < embBase := by
  simp only [tmpU, embBase, nSlots, nVars, nThreads] at *; omega

theorem lowT {tid : Nat} (h : tid < nThreads) : tmpT tid < embBase := by
  simp only [tmpT, embBase, nSlots, nVars, nThreads] at *; omega

theorem lowV {d : Nat} (h : d < nVars) : d < embBase := by
  simp only [embBase, nSlots, nVars, nThreads] at *; omega

theorem lowRecvB_copyEmb (tid c v c' w : Nat) (ks : List Nat) (ht : tid < nThreads) :
    lowRecvB (copyEmb tid c v c' w ks) = true := by
  induction ks with
  | nil => rfl
  | cons k r ih =>
    simp only [copyEmb, lowRecvB_append, ih, Bool.and_true]
    simp [lowRecvB_cons, lowRecvB_nil, recv, lowU ht]

theorem lowRecvB_dropEmb (tid c d : Nat) (ks : List Nat) (ht : tid < nThreads) :
    lowRecvB (dropEmb tid c d ks) = true := by
  induction ks with
  | nil => rfl
  | cons k r ih =>
    simp only [dropEmb, lowRecvB_append, ih, lowRecvB_rel, Bool.and_true]
    simp [lowRecvB_cons, lowRecvB_nil, recv, lowU ht]

theorem lowRecvB_storeOpt (st : St) (tid c k d : Nat) (s : Option Nat) (ht : tid < nThreads) :
    lowRecvB (storeOpt st tid c k d s) = true := by
  cases s with
  | none => rfl
  | some s =>
    simp only [storeOpt, storeElem]
    split <;> simp [lowRecvB_cons, lowRecvB_nil, recv, lowU ht]

theorem lowRecvB_appendN (st : St) (tid d tag x : Nat) (s : Option Nat) (isList : Bool) (ht : tid < nThreads)
    (hd : d < nVars) : lowRecvB (appendN st tid d tag x s isList) = true := by
  simp only [appendN]
  (repeat' split) <;>
    simp [lowRecvB_append, lowRecvB_storeOpt, lowRecvB_copyEmb, ht, lowRecvB_cons, lowRecvB_nil, recv, lowT ht, lowV hd]

theorem lowRecvB_getEmb (st : St) (tid d s k tag : Nat) (isList : Bool) (ht : tid < nThreads) (hd : d < nVars) :
    lowRecvB (getEmb st tid d s k tag isList) = true := by
  simp only [getEmb]
  (repeat' split) <;> simp [lowRecvB_cons, lowRecvB_nil, recv, rel, lowT ht, lowV hd]

theorem lowRecvB_ptrAssign (st : St) (tid d src : Nat) (ht : tid < nThreads) (hd : d < nVars) :
    lowRecvB (ptrAssign st tid d src) = true := by
  simp only [ptrAssign]
  (repeat' split) <;> simp [lowRecvB_append, lowRecvB_relP, lowRecvB_cons, lowRecvB_nil, recv, lowT ht, lowV hd]

theorem lowRecvB_ptrAssignEmb (st : St) (tid d c v : Nat) (ht : tid < nThreads) (hd : d < nVars) :
    lowRecvB (ptrAssignEmb st tid d c v) = true := by
  simp only [ptrAssignEmb]
  (repeat' split) <;> simp [lowRecvB_append, lowRecvB_relP, lowRecvB_cons, lowRecvB_nil, recv, lowT ht, lowV hd]

/-- every handle index of the call is one of the 16 variables; `d->next = s` is excluded (on a shared object it stores
    into an embedded slot without holding the only handle: a single-threaded-only call, see the OPEN note) -/
def idxOkN : NOp → Prop
  | .flat op => idxOk op ∧ ∀ d s, op ≠ .pLink d s
  | .vPushV d s | .xAddC d s | .vGetV d s _ | .xGetC d s _ | .aPushV d s | .aGetV d s _ | .vSetS d s | .sFromV d s => d < nVars ∧ s < nVars
  | .vAppS d _ => d < nVars

theorem lowRecv_lists (tid : Nat) (op : NOp) (ht : tid < nThreads) (hi : idxOkN op) :
    (∀ st, LowRecv (preN st tid op)) ∧ (∀ s1, LowRecv (postN s1 tid op)) := by
  cases op with
  | vPushV d s =>
    refine ⟨fun st => lowRecv_of_B ?_, fun s1 => lowRecv_of_B (lowRecvB_appendN _ _ _ _ _ _ _ ht hi.1)⟩
    simp only [preN]; split <;> simp [lowRecvB_cons, lowRecvB_nil, recv, lowV hi.1]
  | xAddC d s =>
    refine ⟨fun st => lowRecv_of_B ?_, fun s1 => lowRecv_of_B (lowRecvB_appendN _ _ _ _ _ _ _ ht hi.1)⟩
    simp only [preN]; split <;> simp [lowRecvB_cons, lowRecvB_nil, recv, lowV hi.1]
  | vGetV d s k => exact ⟨fun st => lowRecv_of_B (lowRecvB_getEmb _ _ _ _ _ _ _ ht hi.1), fun s1 => lowRecv_of_B rfl⟩
  | aPushV d s =>
    refine ⟨fun st => lowRecv_of_B ?_, fun s1 => lowRecv_of_B (lowRecvB_appendN _ _ _ _ _ _ _ ht hi.1)⟩
    simp only [preN]; split <;> simp [lowRecvB_cons, lowRecvB_nil, recv, lowV hi.1]
  | aGetV d s k => exact ⟨fun st => lowRecv_of_B (lowRecvB_getEmb _ _ _ _ _ _ _ ht hi.1), fun s1 => lowRecv_of_B rfl⟩
  | xGetC d s k => exact ⟨fun st => lowRecv_of_B (lowRecvB_getEmb _ _ _ _ _ _ _ ht hi.1), fun s1 => lowRecv_of_B rfl⟩
  | sFromV d s =>
    refine ⟨fun st => lowRecv_of_B ?_, fun s1 => lowRecv_of_B rfl⟩
    simp only [preN]
    (repeat' split) <;> simp [shareAssign, rel, lowRecvB_append, lowRecvB_cons, lowRecvB_nil, recv, lowU ht, lowT ht, lowV hi.1]
  | vSetS d s =>
    refine ⟨fun st => lowRecv_of_B (by simp [preN, lowRecvB_cons, lowRecvB_nil, recv]), fun s1 => lowRecv_of_B ?_⟩
    simp only [postN, innerAssign, innerFromVar]
    (repeat' split) <;> simp [lowRecvB_append, lowRecvB_cons, lowRecvB_nil, recv, lowU ht, lowT ht, lowV hi.1]
  | vAppS d bytes =>
    refine ⟨fun st => lowRecv_of_B (by simp [preN, lowRecvB_cons, lowRecvB_nil, recv]), fun s1 => lowRecv_of_B ?_⟩
    simp only [postN]
    (repeat' split) <;> simp [lowRecvB_append, lowRecvB_cons, lowRecvB_nil, recv, lowU ht, lowT ht, lowV hi]
  | flat op =>
    obtain ⟨hi, hnl⟩ := hi
    cases hf : flatOp op with
    | true =>
      obtain ⟨hpre, hpost⟩ := flat_low tid op ht hf hi
      refine ⟨fun st => lowRecv_of_lowB (hpre st), fun s1 => ?_⟩
      cases op <;> try exact lowRecv_of_lowB (hpost s1)
      case vPush d x => exact lowRecv_of_B (lowRecvB_appendN _ _ _ _ _ _ _ ht hi)
      case vSetList d x =>
        apply lowRecv_of_B
        simp only [postN]
        (repeat' split) <;> simp [lowRecvB_append, lowRecvB_dropEmb, ht, lowRecvB_cons, lowRecvB_nil, recv, cloneReleaseFirst, lowV hi]
      case vPushA d x => exact lowRecv_of_B (lowRecvB_appendN _ _ _ _ _ _ _ ht hi)
      case vSetArr d x =>
        apply lowRecv_of_B
        simp only [postN]
        (repeat' split) <;> simp [lowRecvB_append, lowRecvB_dropEmb, ht, lowRecvB_cons, lowRecvB_nil, recv, cloneReleaseFirst, lowV hi]
      case xElem d bytes =>
        apply lowRecv_of_B
        simp only [postN]
        (repeat' split) <;>
          simp [lowRecvB_append, lowRecvB_copyEmb, ht, lowRecvB_cons, lowRecvB_nil, recv, cloneReleaseFirst, lowT ht, lowV hi]
    | false =>
      cases op <;> simp only [flatOp, reduceCtorEq] at hf <;> simp only [idxOk] at hi
      case pLink d s => exact absurd rfl (hnl d s)
      case pNew d x =>
        refine ⟨fun st => lowRecv_of_B ?_, fun s1 => lowRecv_of_B rfl⟩
        simp [preN, pre, lowRecvB_append, lowRecvB_relP, lowRecvB_cons, lowRecvB_nil, recv, lowT ht, lowV hi]
      case pCopy d s =>
        refine ⟨fun st => lowRecv_of_B ?_, fun s1 => lowRecv_of_B rfl⟩
        simp only [preN, pre]
        (repeat' split) <;> simp [lowRecvB_append, lowRecvB_relP, lowRecvB_cons, lowRecvB_nil, recv, lowV hi.1]
      case pAssign d s =>
        exact ⟨fun st => lowRecv_of_B (lowRecvB_ptrAssign _ _ _ _ ht hi.1), fun s1 => lowRecv_of_B rfl⟩
      case pClear d => exact ⟨fun st => lowRecv_of_B (lowRecvB_relP _ _ _ _), fun s1 => lowRecv_of_B rfl⟩
      case pNext d =>
        refine ⟨fun st => lowRecv_of_B ?_, fun s1 => lowRecv_of_B rfl⟩
        simp only [preN, pre]
        split
        · exact lowRecvB_ptrAssignEmb _ _ _ _ _ ht hi
        · simp [lowRecvB_cons, lowRecvB_nil, recv, lowV hi]
      case pNextOf d s =>
        refine ⟨fun st => lowRecv_of_B ?_, fun s1 => lowRecv_of_B rfl⟩
        simp only [preN, pre]
        split
        · exact lowRecvB_ptrAssignEmb _ _ _ _ _ ht hi.1
        · simp [lowRecvB_cons, lowRecvB_nil, recv, lowV hi.1]

/-- one call: no orphan before, none after -/
theorem apiStepN_no_orphan {n tid : Nat} {op : NOp} {s s' : St} (hreach : Reach n s) (ht : tid < nThreads)
    (hi : idxOkN op) (h0 : ∀ e, ¬ Orphan s e) (hr : apiStepN s tid op = some s') : ∀ e, ¬ Orphan s' e := by
  obtain ⟨hpre, hpost⟩ := lowRecv_lists tid op ht hi
  simp only [apiStepN] at hr
  cases h1 : runC (cascFuel s (preN s tid op)) s tid (preN s tid op) with
  | none => simp only [h1] at hr; cases hr
  | some s1 =>
    simp only [h1] at hr
    have n1 := runC_no_orphan _ _ hreach (hpre s) (fun e ho => absurd ho (h0 e)) h1
    exact runC_no_orphan _ _ (reach_runC _ _ hreach h1) (hpost s1) (fun e ho => absurd ho (n1 e)) hr

theorem apiRunN_no_orphan {n tid : Nat} (ops : List NOp) {s s' : St} (hreach : Reach n s) (ht : tid < nThreads)
    (hi : ∀ op, op ∈ ops → idxOkN op) (h0 : ∀ e, ¬ Orphan s e) (hr : apiRunN s tid ops = some s') :
    ∀ e, ¬ Orphan s' e := by
  induction ops generalizing s with
  | nil => simp only [apiRunN, Option.some.injEq] at hr; subst hr; exact h0
  | cons op r ih =>
    simp only [apiRunN] at hr
    cases ha : apiStepN s tid op with
    | none => simp only [ha] at hr; cases hr
    | some s1 =>
      simp only [ha] at hr
      exact ih (reach_apiStepN hreach ha) (fun o ho => hi o (List.mem_cons_of_mem _ ho))
        (apiStepN_no_orphan hreach ht (hi op (List.mem_cons_self ..)) h0 ha) hr

theorem init_no_orphan (n : Nat) : ∀ e, ¬ Orphan (init n) e := by
  intro e ⟨_, _, h, _⟩; simp [init, Handle.isBlk] at h

/-! ### any number of threads, any interleaving -/

/-- the interleaved system: the shared state and, per thread, the rest of the step list of its current call -/
structure Sys where
  st : St
  pend : Nat → List Act

/-- a thread between two calls starts a call (any step list that receives handles only into top-level slots: the
    `pre` / `post` list of any call except `d->next = s`, or a hand-over `give`); a thread inside a call performs its next
    step, with the destructor cascade -/
inductive SReach (n : Nat) : Sys → Prop
  | init : SReach n ⟨init n, fun _ => []⟩
  | call {S : Sys} {tid : Nat} {acts : List Act} : SReach n S → S.pend tid = [] → LowRecv acts →
      SReach n ⟨S.st, upd S.pend tid acts⟩
  | step {S : Sys} {tid : Nat} {s1 : St} {r1 : List Act} : SReach n S → stepC S.st tid (S.pend tid) = some (s1, r1) →
      SReach n ⟨s1, upd S.pend tid r1⟩

theorem sreach_inv {n : Nat} {S : Sys} (h : SReach n S) :
    Reach n S.st ∧ (∀ t, LowRecv (S.pend t)) ∧ ∀ e, Orphan S.st e → ∃ t, Act.dec e ∈ S.pend t := by
  induction h with
  | init => exact ⟨Reach.init, fun t a ha => (by cases ha), fun e ho => absurd ho (init_no_orphan n e)⟩
  | @call S tid acts _ hemp hl ih =>
    obtain ⟨r, l, p⟩ := ih
    refine ⟨r, ?_, ?_⟩
    · intro t
      by_cases e : t = tid
      · subst e; simp only [upd_same]; exact hl
      · simp only [upd_other _ _ _ _ e]; exact l t
    · intro e ho
      obtain ⟨t, ht⟩ := p e ho
      have : t ≠ tid := by intro x; subst x; rw [hemp] at ht; cases ht
      exact ⟨t, by simp only [upd_other _ _ _ _ this]; exact ht⟩
  | @step S tid s1 r1 _ hs ih =>
    obtain ⟨r, l, p⟩ := ih
    obtain ⟨x1, x2, x3⟩ := stepC_pend (Q := fun e => ∃ t, t ≠ tid ∧ Act.dec e ∈ S.pend t) r (l tid)
      (fun e ho => by
        obtain ⟨t, ht⟩ := p e ho
        by_cases x : t = tid
        · subst x; exact Or.inl ht
        · exact Or.inr ⟨t, x, ht⟩) hs
    refine ⟨x1, ?_, ?_⟩
    · intro t
      by_cases e : t = tid
      · subst e; simp only [upd_same]; exact x2
      · simp only [upd_other _ _ _ _ e]; exact l t
    · intro e ho
      rcases x3 e ho with h | ⟨t, hne, ht⟩
      · exact ⟨tid, by simp only [upd_same]; exact h⟩
      · exact ⟨t, by simp only [upd_other _ _ _ _ hne]; exact ht⟩

end Nstd.Rc
