import Nstd.Rc.Stale
/-
  `no_use_after_drop` for the RefCount::Ptr calls, including those that create or walk `next` handles
  (`pLink`, `pNext`, `pNextOf`) and the destructor cascade `relP`: their step lists pass the syntactic check `staleOk`
  of Stale.lean from "no stale pointer" to "no stale pointer" for EVERY state (every object graph), hence the
  instrumented run never reads a handle between the decrement through it and the store that overwrites it.
  This is the order "read the assigned handle, then release" of `Ptr::operator=` (defect D37, seeded C09-1/C09-3/C09-6):
  the decrement-first list `dec d; free; incE T c 0 d; …` reads the stale slot d and is counted as a misuse.
-/
namespace Nstd.Rc

theorem staleOk_append (a b : List Act) (D : List Nat) :
    staleOk D (a ++ b) = (staleOk D a).bind (fun D' => staleOk D' b) := by
  induction a generalizing D with
  | nil => rfl
  | cons x r ih =>
    simp only [List.cons_append, staleOk]
    cases staleStep D x with
    | none => rfl
    | some D1 => exact ih D1

theorem staleOk_nil_append {a b : List Act} (ha : staleOk [] a = some []) : staleOk [] (a ++ b) = staleOk [] b := by
  rw [staleOk_append, ha]; rfl

theorem staleOk_rel (d : Nat) : staleOk [] (rel d) = some [] := by
  simp [staleOk, staleStep, reads, overwrites, rel]

theorem staleOk_relP (st : St) (tid : Nat) (fuel : Nat) : ∀ d, staleOk [] (relP st tid d fuel) = some [] := by
  induction fuel with
  | zero => intro d; exact staleOk_rel d
  | succ f ih =>
    intro d
    simp only [relP]
    split
    · split
      · split
        · rw [staleOk_nil_append (ih _)]; exact staleOk_rel d
        · exact staleOk_rel d
      · exact staleOk_rel d
    · exact staleOk_rel d

theorem staleOk_ptrAssign (st : St) (tid d src : Nat) :
    staleOk [] (ptrAssign st tid d src) = some [] := by
  simp only [ptrAssign]
  split
  · split
    · rw [List.append_assoc, staleOk_append]
      simp only [staleOk, staleStep, reads, overwrites, List.any_cons, List.any_nil, List.not_mem_nil, decide_false,
        Bool.or_false, Bool.false_eq_true, if_false, List.filter_nil, Option.bind]
      rw [staleOk_nil_append (staleOk_relP _ _ _ _)]
      simp [staleOk, staleStep, reads, overwrites]
    · simp [staleOk, staleStep, reads, overwrites]
  · exact staleOk_relP _ _ _ _

theorem staleOk_ptrAssignEmb (st : St) (tid d c v : Nat) : staleOk [] (ptrAssignEmb st tid d c v) = some [] := by
  simp only [ptrAssignEmb]
  split
  · rw [List.append_assoc, staleOk_append]
    simp only [staleOk, staleStep, reads, overwrites, List.any_cons, List.any_nil, List.not_mem_nil, decide_false,
      Bool.or_false, Bool.false_eq_true, if_false, List.filter_nil, Option.bind]
    rw [staleOk_nil_append (staleOk_relP _ _ _ _)]
    simp [staleOk, staleStep, reads, overwrites]
  · simp [staleOk, staleStep, reads, overwrites]

theorem staleOk_wrap (l1 l2 l3 : List Act) (h1 : staleOk [] l1 = some []) (h2 : staleOk [] l2 = some [])
    (h3 : staleOk [] l3 = some []) : staleOk [] (l1 ++ l2 ++ l3) = some [] := by
  rw [List.append_assoc, staleOk_nil_append h1, staleOk_nil_append h2]; exact h3

theorem staleOk_ptrLinkSole (st : St) (tid d c src : Nat) : staleOk [] (ptrLinkSole st tid d c src) = some [] := by
  simp only [ptrLinkSole]
  split
  · refine staleOk_wrap _ _ _ ?_ (staleOk_relP _ _ _ _) (by simp [staleOk, staleStep, reads, overwrites])
    split <;> simp [staleOk, staleStep, reads, overwrites]
  · split <;> simp [staleOk, staleStep, reads, overwrites]

/-- the RefCount::Ptr calls (all seven: `= new`, copy, `operator=`, `= Ptr()`, `d->next = s`, `d = d->next`,
    `d = s->next`): for every state — every object graph, every depth of the destructor cascade — the step list reads no
    handle between the decrement through it and the store that overwrites it, and leaves no stale pointer behind -/
theorem ptr_stale_ok (tid : Nat) (op : ApiOp) (hf : flatOp op = false) :
    (∀ st, staleOk [] (pre st tid op) = some []) ∧ (∀ s1, staleOk [] (post s1 tid op) = some []) := by
  cases op <;> simp only [flatOp, reduceCtorEq] at hf
  case pNew d x =>
    refine ⟨fun st => ?_, fun s1 => rfl⟩
    simp only [pre]
    rw [List.append_assoc, staleOk_append]
    simp only [staleOk, staleStep, reads, overwrites, List.any_nil, Bool.false_eq_true, if_false, List.filter_nil, Option.bind]
    rw [staleOk_nil_append (staleOk_relP _ _ _ _)]
    simp [staleOk, staleStep, reads, overwrites]
  case pCopy d s =>
    refine ⟨fun st => ?_, fun s1 => rfl⟩
    simp only [pre]
    split
    · rfl
    · rw [staleOk_nil_append (staleOk_relP _ _ _ _)]
      split <;> simp [staleOk, staleStep, reads, overwrites]
  case pAssign d s =>
    refine ⟨fun st => ?_, fun s1 => rfl⟩
    simp only [pre, ptrAssign]
    split
    · split
      · rw [List.append_assoc, staleOk_append]
        simp only [staleOk, staleStep, reads, overwrites, List.any_cons, List.any_nil, List.not_mem_nil, decide_false,
          Bool.or_false, Bool.false_eq_true, if_false, List.filter_nil, Option.bind]
        rw [staleOk_nil_append (staleOk_relP _ _ _ _)]
        simp [staleOk, staleStep, reads, overwrites]
      · simp [staleOk, staleStep, reads, overwrites]
    · exact staleOk_relP _ _ _ _
  case pClear d => exact ⟨fun st => staleOk_relP _ _ _ _, fun s1 => rfl⟩
  case pLink d s =>
    refine ⟨fun st => ?_, fun s1 => rfl⟩
    simp only [pre]
    split
    · exact staleOk_ptrLinkSole _ _ _ _ _
    · simp only [ptrAssign]
      split
      · split
        · rw [List.append_assoc, staleOk_append]
          simp only [staleOk, staleStep, reads, overwrites, List.any_cons, List.any_nil, List.not_mem_nil, decide_false,
            Bool.or_false, Bool.false_eq_true, if_false, List.filter_nil, Option.bind]
          rw [staleOk_nil_append (staleOk_relP _ _ _ _)]
          simp [staleOk, staleStep, reads, overwrites]
        · simp [staleOk, staleStep, reads, overwrites]
      · exact staleOk_relP _ _ _ _
    · simp [staleOk, staleStep, reads, overwrites]
  case pNext d =>
    refine ⟨fun st => ?_, fun s1 => rfl⟩
    simp only [pre]
    split
    · exact staleOk_ptrAssignEmb _ _ _ _ _
    · simp [staleOk, staleStep, reads, overwrites]
  case pNextOf d s =>
    refine ⟨fun st => ?_, fun s1 => rfl⟩
    simp only [pre]
    split
    · exact staleOk_ptrAssignEmb _ _ _ _ _
    · simp [staleOk, staleStep, reads, overwrites]

theorem apiStepG_clean_all {s s' : St} {g g' : Gh} {tid : Nat} {op : ApiOp} (htid : tid < nThreads)
    (hi : flatOp op = true → idxOk op) (hg : g.clean) (hr : apiStepG s g tid op = some (s', g')) :
    g'.misuse = g.misuse ∧ g'.clean := by
  have hok : (∀ st, staleOk [] (pre st tid op) = some []) ∧ (∀ s1, staleOk [] (post s1 tid op) = some []) := by
    cases hf : flatOp op with
    | true => exact flat_stale_ok tid op htid hf (hi hf)
    | false => exact ptr_stale_ok tid op hf
  obtain ⟨hpre, hpost⟩ := hok
  simp only [apiStepG] at hr
  cases h1 : runTG s g tid (pre s tid op) with
  | none => simp only [h1] at hr; cases hr
  | some p =>
    obtain ⟨s1, g1⟩ := p
    simp only [h1] at hr
    obtain ⟨m1, c1⟩ := staleOk_sound _ hg (hpre s) h1
    obtain ⟨m2, c2⟩ := staleOk_sound _ c1 (hpost s1) hr
    exact ⟨by rw [m2, m1], c2⟩

theorem apiRunG_clean_all {tid : Nat} (ops : List ApiOp) {s s' : St} {g g' : Gh} (htid : tid < nThreads)
    (hops : ∀ op, op ∈ ops → flatOp op = true → idxOk op) (hg : g.clean) (hr : apiRunG s g tid ops = some (s', g')) :
    g'.misuse = g.misuse ∧ g'.clean := by
  induction ops generalizing s g with
  | nil => simp only [apiRunG, Option.some.injEq, Prod.mk.injEq] at hr; obtain ⟨_, e⟩ := hr; subst e; exact ⟨rfl, hg⟩
  | cons op r ih =>
    simp only [apiRunG] at hr
    cases h1 : apiStepG s g tid op with
    | none => simp only [h1] at hr; cases hr
    | some p =>
      obtain ⟨s1, g1⟩ := p
      simp only [h1] at hr
      obtain ⟨m1, c1⟩ := apiStepG_clean_all htid (hops op (List.mem_cons_self ..)) hg h1
      obtain ⟨m2, c2⟩ := ih (fun o ho => hops o (List.mem_cons_of_mem _ ho)) c1 hr
      exact ⟨by rw [m2, m1], c2⟩

end Nstd.Rc
