import Nstd.Rc.Frame
/-
  RefCount::Ptr calls are never rejected either, as long as no object carries a `next` handle (`NoEmb`): then the
  release cascade `relP` degenerates to `rel` and the step lists of `= new`, copy, `operator=` and `= Ptr()` are flat.
-/
namespace Nstd.Rc

/-- no payload has an embedded handle (no object was ever linked) -/
def NoEmb (s : St) : Prop := ∀ b, (s.slots (embSlot b)).isBlk = false

theorem relP_noEmb {st : St} (h : NoEmb st) (tid d fuel : Nat) : relP st tid d fuel = rel d := by
  cases fuel with
  | zero => rfl
  | succ f =>
    simp only [relP]
    split
    · rename_i b _
      have := h b
      split
      · rename_i hsl; rw [hsl] at this; simp [Handle.isBlk] at this
      · rfl
    · rfl

/-- slots a step may write -/
def writes : Act → List Nat
  | .inc t _ => [t]
  | .dec t => [t]
  | .alloc t _ _ _ => [t]
  | .move d t => [d, t]
  | .swap a b => [a, b]
  | .setInl d _ _ => [d]
  | .incE t _ _ _ => [t]
  | .takeE t c k _ => [t, embSlotK c k]
  | .putE c k t _ => [embSlotK c k, t]
  | .takeF t c k => [t, embSlotK c k]
  | _ => []

theorem astep_slots_frame {s s' : St} {tid x : Nat} {a : Act} (hs : astep s tid a = some s') (hx : x ∉ writes a) :
    s'.slots x = s.slots x := by
  have dI : ∀ t src, x ≠ t → (doInc s t src).slots x = s.slots x := by
    intro t src hne; simp only [doInc]; (repeat' split) <;> first | rfl | exact upd_other _ _ _ _ hne
  have dM : ∀ d t, x ≠ d → x ≠ t → (doMove s d t).slots x = s.slots x := by
    intro d t h1 h2; simp only [doMove]; rw [upd_other _ _ _ _ h2, upd_other _ _ _ _ h1]
  cases a <;> simp only [writes, List.mem_cons, List.not_mem_nil, or_false, not_or] at hx <;>
    simp only [astep] at hs <;> (repeat' split at hs) <;>
    first
    | (cases hs; done)
    | (cases hs; rfl)
    | (cases hs; exact dI _ _ hx)
    | (cases hs; exact dM _ _ hx.1 hx.2)
    | (cases hs; exact dM _ _ hx.2 hx.1)
    | (cases hs; exact upd_other _ _ _ _ hx)
    | (cases hs; show upd (upd s.slots _ _) _ _ x = s.slots x; rw [upd_other _ _ _ _ hx.2, upd_other _ _ _ _ hx.1])

theorem runT_slots_frame {tid x : Nat} (acts : List Act) {s s' : St} (hr : runT s tid acts = some s')
    (hx : ∀ a, a ∈ acts → x ∉ writes a) : s'.slots x = s.slots x := by
  induction acts generalizing s with
  | nil => simp only [runT, Option.some.injEq] at hr; subst hr; rfl
  | cons a r ih =>
    simp only [runT] at hr
    cases h1 : astep s tid a with
    | none => simp only [h1] at hr; cases hr
    | some s1 =>
      simp only [h1] at hr
      rw [ih hr (fun b hb => hx b (List.mem_cons_of_mem _ hb)), astep_slots_frame h1 (hx a (List.mem_cons_self ..))]

/-- every slot written by the list is a top-level slot -/
def lowList (acts : List Act) : Prop := ∀ a, a ∈ acts → ∀ y, y ∈ writes a → y < embBase

theorem noEmb_runT {tid : Nat} {acts : List Act} {s s' : St} (h : NoEmb s) (hl : lowList acts)
    (hr : runT s tid acts = some s') : NoEmb s' := by
  intro b
  rw [runT_slots_frame acts hr (fun a ha hm => by have := hl a ha _ hm; simp only [embSlot] at this; omega)]
  exact h b

def lowB (acts : List Act) : Bool := acts.all (fun a => (writes a).all (fun y => decide (y < embBase)))

theorem lowList_of_lowB {acts : List Act} (h : lowB acts = true) : lowList acts := by
  intro a ha y hy
  simp only [lowB, List.all_eq_true, decide_eq_true_eq] at h
  exact h a ha y hy

macro "lowauto" : tactic =>
  `(tactic| (
    (repeat' split) <;>
    simp [lowB, writes, rel, shareAssign, cloneAllocFirst, cloneReleaseFirst, tmpU, tmpT, nVars, embBase, nSlots, nThreads, *] <;>
    (try omega) <;> (try ((repeat' constructor) <;> exact decide_eq_true (by omega)))))

theorem flat_low (tid : Nat) (op : ApiOp) (htid : tid < nThreads) (hf : flatOp op = true) (hi : idxOk op) :
    (∀ st, lowB (pre st tid op) = true) ∧ (∀ s1, lowB (post s1 tid op) = true) := by
  simp only [nThreads] at htid
  cases op <;> simp only [flatOp, Bool.false_eq_true] at hf <;> simp only [idxOk, nVars] at hi
  case sNew d bytes =>
    refine ⟨fun st => ?_, fun s1 => ?_⟩
    · simp only [pre, boxAssign]; lowauto
    · simp only [post, boxAssign]; lowauto
  case sLit d bytes =>
    refine ⟨fun st => ?_, fun s1 => ?_⟩
    · simp only [pre, boxAssign]; lowauto
    · simp only [post, boxAssign]; lowauto
  case sClear d =>
    refine ⟨fun st => ?_, fun s1 => ?_⟩
    · simp only [pre, boxAssign]; lowauto
    · simp only [post, boxAssign]; lowauto
  case sAppend d bytes =>
    refine ⟨fun st => ?_, fun s1 => ?_⟩
    · simp only [pre, boxAssign]; lowauto
    · simp only [post, boxAssign]; lowauto
  case sReserve d k =>
    refine ⟨fun st => ?_, fun s1 => ?_⟩
    · simp only [pre, boxAssign]; lowauto
    · simp only [post, boxAssign]; lowauto
  case sDel d =>
    refine ⟨fun st => ?_, fun s1 => ?_⟩
    · simp only [pre, boxAssign]; lowauto
    · simp only [post, boxAssign]; lowauto
  case sSet d bytes =>
    refine ⟨fun st => ?_, fun s1 => ?_⟩
    · simp only [pre, boxAssign]; lowauto
    · simp only [post, boxAssign]; lowauto
  case sPrepend d bytes =>
    refine ⟨fun st => ?_, fun s1 => ?_⟩
    · simp only [pre, boxAssign]; lowauto
    · simp only [post, boxAssign]; lowauto
  case sResize d k =>
    refine ⟨fun st => ?_, fun s1 => ?_⟩
    · simp only [pre, boxAssign]; lowauto
    · simp only [post, boxAssign]; lowauto
  case sEdit d k a b =>
    refine ⟨fun st => ?_, fun s1 => ?_⟩
    · simp only [pre, boxAssign]; lowauto
    · simp only [post, boxAssign]; lowauto
  case sPrintf d x =>
    refine ⟨fun st => ?_, fun s1 => ?_⟩
    · simp only [pre, boxAssign]; lowauto
    · simp only [post, boxAssign]; lowauto
  case gNew d tag inl val cap =>
    refine ⟨fun st => ?_, fun s1 => ?_⟩
    · simp only [pre, boxAssign]; lowauto
    · simp only [post, boxAssign]; lowauto
  case gEdit d skip nv =>
    refine ⟨fun st => ?_, fun s1 => ?_⟩
    · simp only [pre, boxAssign]; lowauto
    · simp only [post, boxAssign]; lowauto
  case vClear d =>
    refine ⟨fun st => ?_, fun s1 => ?_⟩
    · simp only [pre, boxAssign]; lowauto
    · simp only [post, boxAssign]; lowauto
  case vSetInt d x =>
    refine ⟨fun st => ?_, fun s1 => ?_⟩
    · simp only [pre, boxAssign]; lowauto
    · simp only [post, boxAssign]; lowauto
  case vSetStr d bytes =>
    refine ⟨fun st => ?_, fun s1 => ?_⟩
    · simp only [pre, boxAssign]; lowauto
    · simp only [post, boxAssign]; lowauto
  case vAppStr d bytes =>
    refine ⟨fun st => ?_, fun s1 => ?_⟩
    · simp only [pre, boxAssign]; lowauto
    · simp only [post, boxAssign]; lowauto
  case vPush d x =>
    refine ⟨fun st => ?_, fun s1 => ?_⟩
    · simp only [pre, boxAssign]; lowauto
    · simp only [post, boxAssign]; lowauto
  case vSetList d x =>
    refine ⟨fun st => ?_, fun s1 => ?_⟩
    · simp only [pre, boxAssign]; lowauto
    · simp only [post, boxAssign]; lowauto
  case vPushA d x =>
    refine ⟨fun st => ?_, fun s1 => ?_⟩
    · simp only [pre, boxAssign]; lowauto
    · simp only [post, boxAssign]; lowauto
  case vSetArr d x =>
    refine ⟨fun st => ?_, fun s1 => ?_⟩
    · simp only [pre, boxAssign]; lowauto
    · simp only [post, boxAssign]; lowauto
  case vPutM d k x =>
    refine ⟨fun st => ?_, fun s1 => ?_⟩
    · simp only [pre, boxAssign]; lowauto
    · simp only [post, boxAssign]; lowauto
  case vSetMap d k x =>
    refine ⟨fun st => ?_, fun s1 => ?_⟩
    · simp only [pre, boxAssign]; lowauto
    · simp only [post, boxAssign]; lowauto
  case xClear d =>
    refine ⟨fun st => ?_, fun s1 => ?_⟩
    · simp only [pre, boxAssign]; lowauto
    · simp only [post, boxAssign]; lowauto
  case xSetStr d bytes =>
    refine ⟨fun st => ?_, fun s1 => ?_⟩
    · simp only [pre, boxAssign]; lowauto
    · simp only [post, boxAssign]; lowauto
  case xElem d bytes =>
    refine ⟨fun st => ?_, fun s1 => ?_⟩
    · simp only [pre, boxAssign]; lowauto
    · simp only [post, boxAssign]; lowauto
  case sCopy d s =>
    obtain ⟨hi1, hi2⟩ := hi
    refine ⟨fun st => ?_, fun s1 => ?_⟩
    · simp only [pre, boxAssign]; lowauto
    · simp only [post, boxAssign]; lowauto
  case sAssign d s =>
    obtain ⟨hi1, hi2⟩ := hi
    refine ⟨fun st => ?_, fun s1 => ?_⟩
    · simp only [pre, boxAssign]; lowauto
    · simp only [post, boxAssign]; lowauto
  case vCopy d s =>
    obtain ⟨hi1, hi2⟩ := hi
    refine ⟨fun st => ?_, fun s1 => ?_⟩
    · simp only [pre, boxAssign]; lowauto
    · simp only [post, boxAssign]; lowauto
  case vAssign d s =>
    obtain ⟨hi1, hi2⟩ := hi
    refine ⟨fun st => ?_, fun s1 => ?_⟩
    · simp only [pre, boxAssign]; lowauto
    · simp only [post, boxAssign]; lowauto
  case vSwap d s =>
    obtain ⟨hi1, hi2⟩ := hi
    refine ⟨fun st => ?_, fun s1 => ?_⟩
    · simp only [pre, boxAssign]; lowauto
    · simp only [post, boxAssign]; lowauto
  case xCopy d s =>
    obtain ⟨hi1, hi2⟩ := hi
    refine ⟨fun st => ?_, fun s1 => ?_⟩
    · simp only [pre, boxAssign]; lowauto
    · simp only [post, boxAssign]; lowauto
  case xAssign d s =>
    obtain ⟨hi1, hi2⟩ := hi
    refine ⟨fun st => ?_, fun s1 => ?_⟩
    · simp only [pre, boxAssign]; lowauto
    · simp only [post, boxAssign]; lowauto
  case pSwap d s =>
    obtain ⟨hi1, hi2⟩ := hi
    refine ⟨fun st => ?_, fun s1 => ?_⟩
    · simp only [pre, boxAssign]; lowauto
    · simp only [post, boxAssign]; lowauto

/-- the RefCount::Ptr calls without `next`: `d = new Obj`, copy construction, `operator=`, `d = Ptr()` -/
def ptrOp : ApiOp → Bool
  | .pNew .. | .pCopy .. | .pAssign .. | .pClear .. => true
  | _ => false

theorem noEmb_doInc {s : St} (h : NoEmb s) (t src : Nat) (ht : t < embBase) : NoEmb (doInc s t src) := by
  intro b
  have : embSlot b ≠ t := by simp only [embSlot]; omega
  have e : (doInc s t src).slots (embSlot b) = s.slots (embSlot b) := by
    simp only [doInc]; (repeat' split) <;> first | rfl | exact upd_other _ _ _ _ this
  rw [e]; exact h b

theorem ptrAssign_noEmb {st : St} {tid : Nat} {mine : Nat → Bool} (hne : NoEmb st) (hc : Conc st tid (A0 tid mine))
    (hn : nSlots ≤ st.n) (htid : tid < nThreads) (hmT : mine (tmpT tid) = true) (d s : Nat) (hs : s < nVars)
    (hms : mine s = true) :
    ptrAssign st tid d s = (match st.slots s with
          | .blk _ => [.inc (tmpT tid) s] ++ rel d ++ [.move d (tmpT tid)]
          | _ => rel d) := by
  simp only [ptrAssign]
  cases hsl : st.slots s with
  | none => simp only [relP_noEmb hne]
  | inl t v => simp only [relP_noEmb hne]
  | blk b =>
    simp only [nSlots, nVars, nThreads] at hn htid hs
    have hT : tmpT tid < st.n := by simp only [tmpT, nVars]; omega
    have hs' : s < st.n := by omega
    have ha : absStep st.n (A0 tid mine) (.inc (tmpT tid) s) = some { (A0 tid mine) with empty := (A0 tid mine).drop (tmpT tid) } := by
      simp [absStep, A0, hmT, hms, hT, hs']
    obtain ⟨st1, h1, _, _⟩ := absStep_sound hc ha
    have e1 : st1 = doInc st (tmpT tid) s := by
      simp only [astep] at h1
      split at h1
      · cases h1; rfl
      · cases h1
    have hne1 : NoEmb st1 := by
      rw [e1]; exact noEmb_doInc hne _ _ (by simp only [tmpT, embBase, nSlots, nVars, nThreads]; omega)
    simp only [h1, relP_noEmb hne1]

macro "ptrauto" : tactic =>
  `(tactic| (
    (repeat' split) <;>
    simp [okMid, okFinal, post, absRun, absStep, A0, Abs.drop, Abs.good, tmpU, tmpT, nVars, rel, *] <;> (try omega)))

section
variable {st : St} {tid : Nat} {mine : Nat → Bool} (hne : NoEmb st) (hc : Conc st tid (A0 tid mine))
  (hn : nSlots ≤ st.n) (htid : tid < nThreads) (hmU : mine (tmpU tid) = true) (hmT : mine (tmpT tid) = true)
include hne hc hn htid hmU hmT

def PtrOk (st : St) (tid : Nat) (mine : Nat → Bool) (op : ApiOp) : Prop :=
  okMid st.n tid op (absRun st.n (A0 tid mine) (pre st tid op)) ∧ lowB (pre st tid op) = true ∧
    ∀ s1, lowB (post s1 tid op) = true

theorem ok_pNew (d x : Nat) (hi : d < nVars) (hmd : mine d = true) : PtrOk st tid mine (.pNew d x) := by
  simp only [PtrOk, pre, relP_noEmb hne]
  simp only [nSlots, nVars, nThreads] at hn htid hi
  simp only [tmpU, tmpT, nVars] at hmU hmT
  have h1 : d < st.n := by omega
  have e1 : ¬ 16 + 2 * tid + 1 = d := by omega
  have e2 : ¬ d = 16 + 2 * tid + 1 := by omega
  have e3 : ¬ 16 + 2 * tid = d := by omega
  have h3 : 16 + 2 * tid + 1 < st.n := by omega
  refine ⟨?_, ?_, fun s1 => ?_⟩
  · ptrauto
  · lowauto
  · simp only [post]; lowauto

theorem ok_pClear (d : Nat) (hi : d < nVars) (hmd : mine d = true) : PtrOk st tid mine (.pClear d) := by
  simp only [PtrOk, pre, relP_noEmb hne]
  simp only [nSlots, nVars, nThreads] at hn htid hi
  simp only [tmpU, tmpT, nVars] at hmU hmT
  have h1 : d < st.n := by omega
  have e1 : ¬ 16 + 2 * tid + 1 = d := by omega
  have e3 : ¬ 16 + 2 * tid = d := by omega
  refine ⟨?_, ?_, fun s1 => ?_⟩
  · ptrauto
  · lowauto
  · simp only [post]; lowauto

theorem ok_pCopy (d s : Nat) (hi : d < nVars) (hi2 : s < nVars) (hmd : mine d = true) (hms : mine s = true) :
    PtrOk st tid mine (.pCopy d s) := by
  simp only [PtrOk, pre, relP_noEmb hne]
  simp only [nSlots, nVars, nThreads] at hn htid hi hi2
  simp only [tmpU, tmpT, nVars] at hmU hmT
  have h1 : d < st.n := by omega
  have h2 : s < st.n := by omega
  have e1 : ¬ 16 + 2 * tid + 1 = d := by omega
  have e3 : ¬ 16 + 2 * tid = d := by omega
  refine ⟨?_, ?_, fun s1 => ?_⟩
  · ptrauto
  · lowauto
  · simp only [post]; lowauto

theorem ok_pAssign (d s : Nat) (hi : d < nVars) (hi2 : s < nVars) (hmd : mine d = true) (hms : mine s = true) :
    PtrOk st tid mine (.pAssign d s) := by
  simp only [PtrOk, pre, ptrAssign_noEmb hne hc hn htid hmT d s hi2 hms]
  simp only [nSlots, nVars, nThreads] at hn htid hi hi2
  simp only [tmpU, tmpT, nVars] at hmU hmT
  have h1 : d < st.n := by omega
  have h2 : s < st.n := by omega
  have e1 : ¬ 16 + 2 * tid + 1 = d := by omega
  have e2 : ¬ d = 16 + 2 * tid + 1 := by omega
  have e3 : ¬ 16 + 2 * tid = d := by omega
  have f1 : ¬ 16 + 2 * tid + 1 = s := by omega
  have h3 : 16 + 2 * tid + 1 < st.n := by omega
  refine ⟨?_, ?_, fun s1 => ?_⟩
  · ptrauto
  · lowauto
  · simp only [post]; lowauto

end

theorem ptrOk_of_ptrOp {st : St} {tid : Nat} {mine : Nat → Bool} (hne : NoEmb st) (hc : Conc st tid (A0 tid mine))
    (hn : nSlots ≤ st.n) (htid : tid < nThreads) (hmU : mine (tmpU tid) = true) (hmT : mine (tmpT tid) = true)
    (op : ApiOp) (hp : ptrOp op = true) (hi : idxOk op) (hmi : idxMine mine op) : PtrOk st tid mine op := by
  revert hp hi hmi
  cases op <;> intro hp hi hmi <;> simp only [ptrOp, Bool.false_eq_true] at hp <;> simp only [idxOk] at hi <;>
    simp only [idxMine] at hmi
  · exact ok_pNew hne hc hn htid hmU hmT _ _ hi hmi
  · exact ok_pCopy hne hc hn htid hmU hmT _ _ hi.1 hi.2 hmi.1 hmi.2
  · exact ok_pAssign hne hc hn htid hmU hmT _ _ hi.1 hi.2 hmi.1 hmi.2
  · exact ok_pClear hne hc hn htid hmU hmT _ hi hmi

/-- one call (String / Variant / Xml::Variant, or RefCount::Ptr `= new`, copy, `operator=`, `= Ptr()`, swap) while no
    object carries a `next` handle: never rejected, and the situation is re-established -/
theorem apiStep_total_noNext {s : St} {tid : Nat} {op : ApiOp} {mine : Nat → Bool} (hne : NoEmb s)
    (hc : Conc s tid (A0 tid mine)) (hn : nSlots ≤ s.n) (htid : tid < nThreads)
    (hop : flatOp op = true ∨ ptrOp op = true) (hi : idxOk op) (hmi : idxMine mine op)
    (hmU : mine (tmpU tid) = true) (hmT : mine (tmpT tid) = true) :
    ∃ s', apiStep s tid op = some s' ∧ Conc s' tid (A0 tid mine) ∧ NoEmb s' ∧ s'.n = s.n := by
  have key : PtrOk s tid mine op := by
    rcases hop with hf | hp
    · exact ⟨flat_lists_ok s.n tid op mine hn htid hf hi hmi hmU hmT s, (flat_low tid op htid hf hi).1 s,
        (flat_low tid op htid hf hi).2⟩
    · exact ptrOk_of_ptrOp hne hc hn htid hmU hmT op hp hi hmi
  obtain ⟨ok, l1, l2⟩ := key
  obtain ⟨s', hs', hc', hn'⟩ := apiStep_total_of_okMid hc ok
  refine ⟨s', hs', hc', ?_, hn'⟩
  simp only [apiStep] at hs'
  cases h1 : runT s tid (pre s tid op) with
  | none => simp only [h1] at hs'; cases hs'
  | some s1 =>
    simp only [h1] at hs'
    exact noEmb_runT (noEmb_runT hne (lowList_of_lowB l1) h1) (lowList_of_lowB (l2 s1)) hs'

theorem apiRun_total_noNext_aux {tid : Nat} {mine : Nat → Bool} (ops : List ApiOp) {s : St} (hne : NoEmb s)
    (hc : Conc s tid (A0 tid mine)) (hn : nSlots ≤ s.n) (htid : tid < nThreads) (hmU : mine (tmpU tid) = true)
    (hmT : mine (tmpT tid) = true)
    (hops : ∀ op, op ∈ ops → (flatOp op = true ∨ ptrOp op = true) ∧ idxOk op ∧ idxMine mine op) :
    ∃ s', apiRun s tid ops = some s' ∧ Conc s' tid (A0 tid mine) ∧ NoEmb s' := by
  induction ops generalizing s with
  | nil => exact ⟨s, rfl, hc, hne⟩
  | cons op r ih =>
    obtain ⟨hf, hi, hmi⟩ := hops op (List.mem_cons_self ..)
    obtain ⟨s1, h1, hc1, hne1, hn1⟩ := apiStep_total_noNext hne hc hn htid hf hi hmi hmU hmT
    obtain ⟨s', h', hc', hne'⟩ := ih hne1 hc1 (by rw [hn1]; exact hn) (fun o ho => hops o (List.mem_cons_of_mem _ ho))
    exact ⟨s', by simp only [apiRun, h1]; exact h', hc', hne'⟩

theorem noEmb_init (n : Nat) : NoEmb (init n) := fun _ => rfl

end Nstd.Rc
