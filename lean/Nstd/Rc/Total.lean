import Nstd.Rc.Lemmas
/-
  API calls on valid handles are never rejected: an abstract interpreter over step lists (phase of
  the thread, set of slots known to hold no pointer) is sound for `runT`, and the step lists of the
  String / Variant / Xml::Variant calls pass it from "idle, both scratch slots empty".
-/
namespace Nstd.Rc

inductive Ph
  | idle | mayFree | mayWrite
deriving DecidableEq

structure Abs where
  ph : Ph
  empty : List Nat        -- slots known to hold no pointer
  mine : Nat → Bool := fun _ => true     -- the slots of the thread (its variables and scratch slots)

def Abs.drop (A : Abs) (t : Nat) : List Nat := A.empty.filter (fun x => x != t)

def absStep (n : Nat) (A : Abs) : Act → Option Abs
  | .inc t src => if (A.mine t = true ∧ A.mine src = true) ∧ A.ph = .idle ∧ t < n ∧ src < n ∧ t ∈ A.empty then some { A with empty := A.drop t } else none
  | .dec t => if A.mine t = true ∧ A.ph = .idle ∧ t < n then some { A with ph := .mayFree, empty := t :: A.empty } else none
  | .free => if A.ph = .mayWrite then none else some { A with ph := .idle }
  | .alloc t _ _ _ => if A.mine t = true ∧ A.ph = .idle ∧ t < n ∧ t ∈ A.empty then some { A with empty := A.drop t } else none
  | .readRef t _ => if A.mine t = true ∧ A.ph = .idle ∧ t < n then some { A with ph := .mayWrite } else none
  | .write _ => if A.ph = .mayFree then none else some { A with ph := .idle }
  | .move d t => if (A.mine d = true ∧ A.mine t = true) ∧ A.ph = .idle ∧ d < n ∧ t < n ∧ d ≠ t ∧ d ∈ A.empty then some { A with empty := t :: A.drop d } else none
  | .swap a b => if (A.mine a = true ∧ A.mine b = true) ∧ A.ph = .idle ∧ a < n ∧ b < n then some { A with empty := (A.drop a).filter (fun x => x != b) } else none
  | .setInl d _ _ => if A.mine d = true ∧ A.ph = .idle ∧ d < n ∧ d ∈ A.empty then some A else none
  | .clr t => if A.mine t = true ∧ A.ph = .idle ∧ t < n ∧ t ∈ A.empty then some A else none
  | _ => none

def absRun (n : Nat) (A : Abs) : List Act → Option Abs
  | [] => some A
  | a :: r => match absStep n A a with
    | some A' => absRun n A' r
    | none => none

def phOk (p : Pc) : Ph → Prop
  | .idle => p = .idle
  | .mayFree => p = .idle ∨ ∃ b, p = .freeing b
  | .mayWrite => p = .idle ∨ ∃ t b, p = .writing t b

structure Conc (s : St) (tid : Nat) (A : Abs) : Prop where
  inv : Inv s
  own : ∀ x, A.mine x = true → s.owner x = tid
  low : ∀ x, A.mine x = true → x < embBase      -- top-level slots only (no handle embedded in a payload)
  ph : phOk (s.pc tid) A.ph
  emp : ∀ x, x ∈ A.empty → (s.slots x).isBlk = false

theorem mem_drop {A : Abs} {t x : Nat} (h : x ∈ A.drop t) : x ∈ A.empty ∧ x ≠ t := by
  simp only [Abs.drop, List.mem_filter, bne_iff_ne, ne_eq] at h
  exact h

theorem absStep_sound {s : St} {tid : Nat} {A A' : Abs} {a : Act} (hc : Conc s tid A)
    (ha : absStep s.n A a = some A') : ∃ s', astep s tid a = some s' ∧ Conc s' tid A' ∧ s'.n = s.n := by
  have hinv := hc.inv
  cases a with
  | inc t src =>
    simp only [absStep] at ha
    split at ha
    case isFalse => cases ha
    case isTrue h =>
      obtain ⟨hm, hph, ht, hsrc, hte⟩ := h
      cases ha
      have hp : s.pc tid = .idle := by have := hc.ph; rw [hph] at this; exact this
      have hs : astep s tid (.inc t src) = some (doInc s t src) := by
        simp only [astep, ht, hsrc, (hc.own t hm.1), (hc.own src hm.2), hp, hc.emp t hte, and_self, if_true]
      refine ⟨_, hs, ⟨inv_astep hinv hs, ?_, hc.low, ?_, ?_⟩, doInc_n _ _ _⟩
      · intro x hx; simp only [doInc]; (repeat' split) <;> exact hc.own x hx
      · simp only [doInc_pc, hph]; exact hp
      · intro x hx
        obtain ⟨hx1, hx2⟩ := mem_drop hx
        have : (doInc s t src).slots x = s.slots x := by
          simp only [doInc]; (repeat' split) <;> first | rfl | exact upd_other _ _ _ _ hx2
        rw [this]; exact hc.emp x hx1
  | dec t =>
    simp only [absStep] at ha
    split at ha
    case isFalse => cases ha
    case isTrue h =>
      obtain ⟨hm, hph, ht⟩ := h
      cases ha
      have hp : s.pc tid = .idle := by have := hc.ph; rw [hph] at this; exact this
      cases hsl : s.slots t with
      | blk b =>
        obtain ⟨blk, hblk, hpos⟩ := hinv.ref_pos ht hsl
        have hr0 : ¬ blk.ref = 0 := by omega
        have hs : ∃ s', astep s tid (.dec t) = some s' ∧ s'.slots = upd s.slots t .none ∧ s'.owner = s.owner ∧ s'.n = s.n ∧
            s'.pc tid = (if blk.ref = 1 then .freeing b else .idle) := by
          simp only [astep, ht, (hc.own t hm), hp, and_self, if_true, hsl, hblk, hr0, if_false]
          refine ⟨_, rfl, rfl, rfl, rfl, ?_⟩
          by_cases h1 : blk.ref = 1
          · simp only [h1, if_true, upd_same]
          · simp only [h1, if_false]; exact hp
        obtain ⟨s', hs, hsl', hown', hn', hpc'⟩ := hs
        refine ⟨_, hs, ⟨inv_astep hinv hs, by rw [hown']; exact hc.own, hc.low, ?_, ?_⟩, hn'⟩
        · simp only [phOk, hpc']
          by_cases h1 : blk.ref = 1
          · right; exact ⟨b, by simp only [h1, if_true]⟩
          · left; simp only [h1, if_false]
        · intro x hx
          rw [hsl']
          by_cases e : x = t
          · subst e; simp [Handle.isBlk]
          · rw [upd_other _ _ _ _ e]
            rcases List.mem_cons.mp hx with hx | hx
            · exact absurd hx e
            · exact hc.emp x hx
      | none =>
        have hs : ∃ s', astep s tid (.dec t) = some s' ∧ s'.slots = upd s.slots t .none ∧ s'.owner = s.owner ∧ s'.n = s.n ∧
            s'.pc = s.pc := by
          simp only [astep, ht, (hc.own t hm), hp, and_self, if_true, hsl]
          exact ⟨_, rfl, rfl, rfl, rfl, rfl⟩
        obtain ⟨s', hs, h1, h2, h3, h4⟩ := hs
        refine ⟨_, hs, ⟨inv_astep hinv hs, by rw [h2]; exact hc.own, hc.low, Or.inl (by rw [h4]; exact hp), ?_⟩, h3⟩
        intro x hx
        rw [h1]
        by_cases e : x = t
        · subst e; simp [Handle.isBlk]
        · rw [upd_other _ _ _ _ e]
          rcases List.mem_cons.mp hx with hx | hx
          · exact absurd hx e
          · exact hc.emp x hx
      | inl tag val =>
        have hs : ∃ s', astep s tid (.dec t) = some s' ∧ s'.slots = upd s.slots t .none ∧ s'.owner = s.owner ∧ s'.n = s.n ∧
            s'.pc = s.pc := by
          simp only [astep, ht, (hc.own t hm), hp, and_self, if_true, hsl]
          exact ⟨_, rfl, rfl, rfl, rfl, rfl⟩
        obtain ⟨s', hs, h1, h2, h3, h4⟩ := hs
        refine ⟨_, hs, ⟨inv_astep hinv hs, by rw [h2]; exact hc.own, hc.low, Or.inl (by rw [h4]; exact hp), ?_⟩, h3⟩
        intro x hx
        rw [h1]
        by_cases e : x = t
        · subst e; simp [Handle.isBlk]
        · rw [upd_other _ _ _ _ e]
          rcases List.mem_cons.mp hx with hx | hx
          · exact absurd hx e
          · exact hc.emp x hx
  | free =>
    simp only [absStep] at ha
    split at ha
    case isTrue => cases ha
    case isFalse hnw =>
      cases ha
      have hph := hc.ph
      have hcase : s.pc tid = .idle ∨ ∃ b, s.pc tid = .freeing b := by
        cases hA : A.ph with
        | idle => rw [hA] at hph; exact Or.inl hph
        | mayFree => rw [hA] at hph; exact hph
        | mayWrite => exact absurd hA hnw
      rcases hcase with hp | ⟨b, hp⟩
      · have hs : astep s tid .free = some s := by simp only [astep, hp]
        exact ⟨s, hs, ⟨hinv, hc.own, hc.low, hp, hc.emp⟩, rfl⟩
      · obtain ⟨⟨blk, hblk, _⟩, _⟩ := hinv.freeing tid b hp
        have hs : ∃ s', astep s tid .free = some s' ∧ s'.slots = s.slots ∧ s'.owner = s.owner ∧ s'.n = s.n ∧ s'.pc tid = .idle := by
          simp only [astep, hp, hblk]
          exact ⟨_, rfl, rfl, rfl, rfl, upd_same _ _ _⟩
        obtain ⟨s', hs, h1, h2, h3, h4⟩ := hs
        exact ⟨_, hs, ⟨inv_astep hinv hs, by rw [h2]; exact hc.own, hc.low, by simp only [phOk, h4], by rw [h1]; exact hc.emp⟩, h3⟩
  | alloc t tag val cap =>
    simp only [absStep] at ha
    split at ha
    case isFalse => cases ha
    case isTrue h =>
      obtain ⟨hm, hph, ht, hte⟩ := h
      cases ha
      have hp : s.pc tid = .idle := by have := hc.ph; rw [hph] at this; exact this
      have hs : ∃ s', astep s tid (.alloc t tag val cap) = some s' ∧ s'.slots = upd s.slots t (.blk s.next) ∧ s'.owner = s.owner ∧
          s'.n = s.n ∧ s'.pc = s.pc := by
        simp only [astep, ht, (hc.own t hm), hp, hc.emp t hte, and_self, if_true]
        exact ⟨_, rfl, rfl, rfl, rfl, rfl⟩
      obtain ⟨s', hs, h1, h2, h3, h4⟩ := hs
      refine ⟨_, hs, ⟨inv_astep hinv hs, by rw [h2]; exact hc.own, hc.low, by rw [h4, hph]; exact hp, ?_⟩, h3⟩
      intro x hx
      obtain ⟨hx1, hx2⟩ := mem_drop hx
      rw [h1, upd_other _ _ _ _ hx2]; exact hc.emp x hx1
  | readRef t ok =>
    simp only [absStep] at ha
    split at ha
    case isFalse => cases ha
    case isTrue h =>
      obtain ⟨hm, hph, ht⟩ := h
      cases ha
      have hp : s.pc tid = .idle := by have := hc.ph; rw [hph] at this; exact this
      cases hsl : s.slots t with
      | blk b =>
        obtain ⟨blk, hblk, _⟩ := hinv.ref_pos ht hsl
        by_cases hcond : blk.ref = 1 ∧ ok = true
        · have hs : ∃ s', astep s tid (.readRef t ok) = some s' ∧ s'.slots = s.slots ∧ s'.owner = s.owner ∧ s'.n = s.n ∧
              s'.pc tid = .writing t b := by
            simp only [astep, ht, (hc.own t hm), hp, and_self, if_true, hsl, hblk, hcond]
            exact ⟨_, rfl, rfl, rfl, rfl, upd_same _ _ _⟩
          obtain ⟨s', hs, h1, h2, h3, h4⟩ := hs
          exact ⟨_, hs, ⟨inv_astep hinv hs, by rw [h2]; exact hc.own, hc.low, Or.inr ⟨t, b, h4⟩, by rw [h1]; exact hc.emp⟩, h3⟩
        · have hs : astep s tid (.readRef t ok) = some s := by
            simp only [astep, ht, (hc.own t hm), hp, and_self, if_true, hsl, hblk, hcond, if_false]
          exact ⟨_, hs, ⟨hinv, hc.own, hc.low, Or.inl hp, hc.emp⟩, rfl⟩
      | none =>
        have hs : astep s tid (.readRef t ok) = some s := by simp only [astep, ht, (hc.own t hm), hp, and_self, if_true, hsl]
        exact ⟨_, hs, ⟨hinv, hc.own, hc.low, Or.inl hp, hc.emp⟩, rfl⟩
      | inl tag val =>
        have hs : astep s tid (.readRef t ok) = some s := by simp only [astep, ht, (hc.own t hm), hp, and_self, if_true, hsl]
        exact ⟨_, hs, ⟨hinv, hc.own, hc.low, Or.inl hp, hc.emp⟩, rfl⟩
  | write val =>
    simp only [absStep] at ha
    split at ha
    case isTrue => cases ha
    case isFalse hnf =>
      cases ha
      have hph := hc.ph
      have hcase : s.pc tid = .idle ∨ ∃ t b, s.pc tid = .writing t b := by
        cases hA : A.ph with
        | idle => rw [hA] at hph; exact Or.inl hph
        | mayWrite => rw [hA] at hph; exact hph
        | mayFree => exact absurd hA hnf
      rcases hcase with hp | ⟨t, b, hp⟩
      · have hs : astep s tid (.write val) = some s := by simp only [astep, hp]
        exact ⟨s, hs, ⟨hinv, hc.own, hc.low, hp, hc.emp⟩, rfl⟩
      · obtain ⟨_, _, _, blk, hblk, _⟩ := hinv.writing tid t b hp
        have hs : ∃ s', astep s tid (.write val) = some s' ∧ s'.slots = s.slots ∧ s'.owner = s.owner ∧ s'.n = s.n ∧ s'.pc tid = .idle := by
          simp only [astep, hp, hblk]
          exact ⟨_, rfl, rfl, rfl, rfl, upd_same _ _ _⟩
        obtain ⟨s', hs, h1, h2, h3, h4⟩ := hs
        exact ⟨_, hs, ⟨inv_astep hinv hs, by rw [h2]; exact hc.own, hc.low, by simp only [phOk, h4], by rw [h1]; exact hc.emp⟩, h3⟩
  | move d t =>
    simp only [absStep] at ha
    split at ha
    case isFalse => cases ha
    case isTrue h =>
      obtain ⟨hm, hph, hd, ht, hne, hde⟩ := h
      cases ha
      have hp : s.pc tid = .idle := by have := hc.ph; rw [hph] at this; exact this
      have hs : astep s tid (.move d t) = some (doMove s d t) := by
        simp only [astep, hd, ht, hne, (hc.own d hm.1), (hc.own t hm.2), hp, hc.emp d hde, and_self, if_true, ne_eq, not_false_eq_true]
      refine ⟨_, hs, ⟨inv_astep hinv hs, hc.own, hc.low, by rw [hph]; exact hp, ?_⟩, rfl⟩
      intro x hx
      simp only [doMove]
      by_cases e : x = t
      · subst e; simp [Handle.isBlk]
      · rw [upd_other _ _ _ _ e]
        rcases List.mem_cons.mp hx with hx | hx
        · exact absurd hx e
        · obtain ⟨hx1, hx2⟩ := mem_drop hx
          rw [upd_other _ _ _ _ hx2]; exact hc.emp x hx1
  | swap a b =>
    simp only [absStep] at ha
    split at ha
    case isFalse => cases ha
    case isTrue h =>
      obtain ⟨hm, hph, haa, hbb⟩ := h
      cases ha
      have hp : s.pc tid = .idle := by have := hc.ph; rw [hph] at this; exact this
      have hs : ∃ s', astep s tid (.swap a b) = some s' ∧ s'.slots = upd (upd s.slots a (s.slots b)) b (s.slots a) ∧
          s'.owner = s.owner ∧ s'.n = s.n ∧ s'.pc = s.pc := by
        simp only [astep, haa, hbb, (hc.own a hm.1), (hc.own b hm.2), hp, and_self, if_true]
        exact ⟨_, rfl, rfl, rfl, rfl, rfl⟩
      obtain ⟨s', hs, h1, h2, h3, h4⟩ := hs
      refine ⟨_, hs, ⟨inv_astep hinv hs, by rw [h2]; exact hc.own, hc.low, by rw [h4, hph]; exact hp, ?_⟩, h3⟩
      intro x hx
      simp only [List.mem_filter, bne_iff_ne, ne_eq] at hx
      obtain ⟨hx0, hxb⟩ := hx
      obtain ⟨hx1, hxa⟩ := mem_drop hx0
      rw [h1, upd_other _ _ _ _ hxb, upd_other _ _ _ _ hxa]; exact hc.emp x hx1
  | setInl d tag val =>
    simp only [absStep] at ha
    split at ha
    case isFalse => cases ha
    case isTrue h =>
      obtain ⟨hm, hph, hd, hde⟩ := h
      cases ha
      have hp : s.pc tid = .idle := by have := hc.ph; rw [hph] at this; exact this
      have hs : ∃ s', astep s tid (.setInl d tag val) = some s' ∧ s'.slots = upd s.slots d (.inl tag val) ∧
          s'.owner = s.owner ∧ s'.n = s.n ∧ s'.pc = s.pc := by
        simp only [astep, hd, (hc.own d hm), hp, hc.emp d hde, and_self, if_true]
        exact ⟨_, rfl, rfl, rfl, rfl, rfl⟩
      obtain ⟨s', hs, h1, h2, h3, h4⟩ := hs
      refine ⟨_, hs, ⟨inv_astep hinv hs, by rw [h2]; exact hc.own, hc.low, by rw [h4, hph]; exact hp, ?_⟩, h3⟩
      intro x hx
      rw [h1]
      by_cases e : x = d
      · subst e; simp [Handle.isBlk]
      · rw [upd_other _ _ _ _ e]; exact hc.emp x hx
  | give v t' => simp [absStep] at ha
  | clr t =>
    simp only [absStep] at ha
    split at ha
    case isFalse => cases ha
    case isTrue h =>
      obtain ⟨hm, hph, ht, hte⟩ := h
      cases ha
      have hp : s.pc tid = .idle := by have := hc.ph; rw [hph] at this; exact this
      have hs : astep s tid (.clr t) = some s := by
        simp only [astep, ht, (hc.own t hm), hp, hc.emp t hte, and_self, if_true]
      exact ⟨s, hs, hc, rfl⟩
  | incE t c k v => simp [absStep] at ha
  | takeE t c k v => simp [absStep] at ha
  | putE c k t v => simp [absStep] at ha
  | takeF t c k => simp [absStep] at ha
  | adoptF c k => simp [absStep] at ha

theorem absRun_sound {tid : Nat} (acts : List Act) {s : St} {A A' : Abs} (hc : Conc s tid A)
    (ha : absRun s.n A acts = some A') : ∃ s', runT s tid acts = some s' ∧ Conc s' tid A' ∧ s'.n = s.n := by
  induction acts generalizing s A with
  | nil => simp only [absRun, Option.some.injEq] at ha; subst ha; exact ⟨s, rfl, hc, rfl⟩
  | cons a r ih =>
    simp only [absRun] at ha
    cases h1 : absStep s.n A a with
    | none => simp only [h1] at ha; cases ha
    | some A1 =>
      simp only [h1] at ha
      obtain ⟨s1, hs1, hc1, hn1⟩ := absStep_sound hc h1
      rw [← hn1] at ha
      obtain ⟨s', hs', hc', hn'⟩ := ih hc1 ha
      exact ⟨s', by simp only [runT, hs1]; exact hs', hc', by rw [hn', hn1]⟩

end Nstd.Rc

namespace Nstd.Rc

/-- all top-level slots: the single-threaded case -/
def mineAll : Nat → Bool := fun x => decide (x < embBase)

def A0 (tid : Nat) (mine : Nat → Bool) : Abs := ⟨.idle, [tmpU tid, tmpT tid], mine⟩

theorem absStep_mine {n : Nat} {A A' : Abs} {a : Act} (h : absStep n A a = some A') : A'.mine = A.mine := by
  cases a <;> simp only [absStep] at h <;> (try split at h) <;> first | (cases h; done) | (cases h; rfl)

theorem absRun_mine {n : Nat} (acts : List Act) {A A' : Abs} (h : absRun n A acts = some A') : A'.mine = A.mine := by
  induction acts generalizing A with
  | nil => simp only [absRun, Option.some.injEq] at h; subst h; rfl
  | cons a r ih =>
    simp only [absRun] at h
    cases h1 : absStep n A a with
    | none => simp only [h1] at h; cases h
    | some A1 => simp only [h1] at h; rw [ih h, absStep_mine h1]

/-- final abstract state of a call: idle, scratch slots empty again -/
def Abs.good (tid : Nat) (A : Abs) : Prop := A.ph = .idle ∧ tmpU tid ∈ A.empty ∧ tmpT tid ∈ A.empty

/-- calls whose step list does not walk through embedded handles (everything except the RefCount::Ptr
    calls that release an object with a `next` handle) -/
def flatOp : ApiOp → Bool
  | .pNew .. | .pCopy .. | .pAssign .. | .pClear .. | .pLink .. | .pNext .. | .pNextOf .. => false
  | _ => true

/-- every handle index of the call is one of the 16 variables -/
def idxOk : ApiOp → Prop
  | .sNew d _ | .sLit d _ | .sClear d | .sAppend d _ | .sReserve d _ | .sDel d | .sSet d _ | .sPrepend d _ | .sResize d _
  | .sEdit d _ _ _ | .sPrintf d _ | .vClear d | .vSetInt d _ | .vSetStr d _ | .vAppStr d _ | .vPush d _ | .vSetList d _
  | .vPushA d _ | .vSetArr d _ | .vPutM d _ _ | .vSetMap d _ _ | .xClear d | .xSetStr d _ | .xElem d _ | .pNew d _
  | .pClear d | .pNext d | .gNew d _ _ _ _ | .gEdit d _ _ => d < nVars
  | .sCopy d s | .sAssign d s | .vCopy d s | .vAssign d s | .vSwap d s | .xCopy d s | .xAssign d s | .pCopy d s
  | .pAssign d s | .pSwap d s | .pLink d s | .pNextOf d s => d < nVars ∧ s < nVars

/-- every handle the call names belongs to the thread -/
def idxMine (mine : Nat → Bool) : ApiOp → Prop
  | .sNew d _ | .sLit d _ | .sClear d | .sAppend d _ | .sReserve d _ | .sDel d | .sSet d _ | .sPrepend d _ | .sResize d _
  | .sEdit d _ _ _ | .sPrintf d _ | .vClear d | .vSetInt d _ | .vSetStr d _ | .vAppStr d _ | .vPush d _ | .vSetList d _
  | .vPushA d _ | .vSetArr d _ | .vPutM d _ _ | .vSetMap d _ _ | .xClear d | .xSetStr d _ | .xElem d _ | .pNew d _
  | .pClear d | .pNext d | .gNew d _ _ _ _ | .gEdit d _ _ => mine d = true
  | .sCopy d s | .sAssign d s | .vCopy d s | .vAssign d s | .vSwap d s | .xCopy d s | .xAssign d s | .pCopy d s
  | .pAssign d s | .pSwap d s | .pLink d s | .pNextOf d s => mine d = true ∧ mine s = true

macro "absauto" : tactic =>
  `(tactic| (simp [absRun, absStep, A0, Abs.drop, Abs.good, tmpU, tmpT, nVars, rel, shareAssign, cloneAllocFirst,
      cloneReleaseFirst, *] <;> omega))

def okFinal (tid : Nat) : Option Abs → Prop
  | some A => A.good tid
  | none => False

def okMid (n tid : Nat) (op : ApiOp) : Option Abs → Prop
  | some A1 => A1.ph ≠ .mayFree ∧
      ∀ s1, (A1.ph = .mayWrite → isWriting s1 tid = true → okFinal tid (absRun n { A1 with ph := .mayWrite } (post s1 tid op))) ∧
            (isWriting s1 tid = false → okFinal tid (absRun n { A1 with ph := .idle } (post s1 tid op)))
  | none => False

macro "absfin" : tactic =>
  `(tactic| (
    (try intro s1) <;> (try constructor) <;> intros <;>
    simp [*, okFinal, post, absRun, absStep, Abs.drop, Abs.good, tmpU, tmpT, nVars, rel, shareAssign, boxAssign,
      cloneAllocFirst, cloneReleaseFirst] <;> (try omega)))

macro "absauto2" : tactic =>
  `(tactic| (
    simp [okMid, pre, absRun, absStep, A0, Abs.drop, tmpU, tmpT, nVars, rel, shareAssign, boxAssign,
      cloneAllocFirst, cloneReleaseFirst, *]
    <;> (try omega) <;> absfin))

theorem flat_lists_ok (n tid : Nat) (op : ApiOp) (mine : Nat → Bool) (hn : nSlots ≤ n) (htid : tid < nThreads)
    (hf : flatOp op = true) (hi : idxOk op) (hmi : idxMine mine op) (hmU : mine (tmpU tid) = true)
    (hmT : mine (tmpT tid) = true) (st : St) : okMid n tid op (absRun n (A0 tid mine) (pre st tid op)) := by
  simp only [nSlots, nVars, nThreads] at hn htid
  simp only [tmpU, tmpT, nVars] at hmU hmT
  cases op <;> simp only [flatOp, Bool.false_eq_true] at hf <;> simp only [idxOk, nVars] at hi <;>
    simp only [idxMine] at hmi
  case sNew d bytes =>
    have h1 : d < n := by omega
    have e1 : ¬ 16 + 2 * tid = d := by omega
    have e2 : ¬ 16 + 2 * tid + 1 = d := by omega
    have e3 : ¬ d = 16 + 2 * tid := by omega
    have e4 : ¬ d = 16 + 2 * tid + 1 := by omega
    have h3 : 16 + 2 * tid + 1 < n := by omega
    have h4 : 16 + 2 * tid < n := by omega
    simp only [pre, boxAssign]
    (repeat' split) <;> absauto2
  case sLit d bytes =>
    have h1 : d < n := by omega
    have e1 : ¬ 16 + 2 * tid = d := by omega
    have e2 : ¬ 16 + 2 * tid + 1 = d := by omega
    have e3 : ¬ d = 16 + 2 * tid := by omega
    have e4 : ¬ d = 16 + 2 * tid + 1 := by omega
    have h3 : 16 + 2 * tid + 1 < n := by omega
    have h4 : 16 + 2 * tid < n := by omega
    simp only [pre, boxAssign]
    (repeat' split) <;> absauto2
  case sClear d =>
    have h1 : d < n := by omega
    have e1 : ¬ 16 + 2 * tid = d := by omega
    have e2 : ¬ 16 + 2 * tid + 1 = d := by omega
    have e3 : ¬ d = 16 + 2 * tid := by omega
    have e4 : ¬ d = 16 + 2 * tid + 1 := by omega
    have h3 : 16 + 2 * tid + 1 < n := by omega
    have h4 : 16 + 2 * tid < n := by omega
    simp only [pre, boxAssign]
    (repeat' split) <;> absauto2
  case sAppend d bytes =>
    have h1 : d < n := by omega
    have e1 : ¬ 16 + 2 * tid = d := by omega
    have e2 : ¬ 16 + 2 * tid + 1 = d := by omega
    have e3 : ¬ d = 16 + 2 * tid := by omega
    have e4 : ¬ d = 16 + 2 * tid + 1 := by omega
    have h3 : 16 + 2 * tid + 1 < n := by omega
    have h4 : 16 + 2 * tid < n := by omega
    simp only [pre, boxAssign]
    (repeat' split) <;> absauto2
  case sReserve d k =>
    have h1 : d < n := by omega
    have e1 : ¬ 16 + 2 * tid = d := by omega
    have e2 : ¬ 16 + 2 * tid + 1 = d := by omega
    have e3 : ¬ d = 16 + 2 * tid := by omega
    have e4 : ¬ d = 16 + 2 * tid + 1 := by omega
    have h3 : 16 + 2 * tid + 1 < n := by omega
    have h4 : 16 + 2 * tid < n := by omega
    simp only [pre, boxAssign]
    (repeat' split) <;> absauto2
  case sDel d =>
    have h1 : d < n := by omega
    have e1 : ¬ 16 + 2 * tid = d := by omega
    have e2 : ¬ 16 + 2 * tid + 1 = d := by omega
    have e3 : ¬ d = 16 + 2 * tid := by omega
    have e4 : ¬ d = 16 + 2 * tid + 1 := by omega
    have h3 : 16 + 2 * tid + 1 < n := by omega
    have h4 : 16 + 2 * tid < n := by omega
    simp only [pre, boxAssign]
    (repeat' split) <;> absauto2
  case sSet d bytes =>
    have h1 : d < n := by omega
    have e1 : ¬ 16 + 2 * tid = d := by omega
    have e2 : ¬ 16 + 2 * tid + 1 = d := by omega
    have e3 : ¬ d = 16 + 2 * tid := by omega
    have e4 : ¬ d = 16 + 2 * tid + 1 := by omega
    have h3 : 16 + 2 * tid + 1 < n := by omega
    have h4 : 16 + 2 * tid < n := by omega
    simp only [pre, boxAssign]
    (repeat' split) <;> absauto2
  case sPrepend d bytes =>
    have h1 : d < n := by omega
    have e1 : ¬ 16 + 2 * tid = d := by omega
    have e2 : ¬ 16 + 2 * tid + 1 = d := by omega
    have e3 : ¬ d = 16 + 2 * tid := by omega
    have e4 : ¬ d = 16 + 2 * tid + 1 := by omega
    have h3 : 16 + 2 * tid + 1 < n := by omega
    have h4 : 16 + 2 * tid < n := by omega
    simp only [pre, boxAssign]
    (repeat' split) <;> absauto2
  case sResize d k =>
    have h1 : d < n := by omega
    have e1 : ¬ 16 + 2 * tid = d := by omega
    have e2 : ¬ 16 + 2 * tid + 1 = d := by omega
    have e3 : ¬ d = 16 + 2 * tid := by omega
    have e4 : ¬ d = 16 + 2 * tid + 1 := by omega
    have h3 : 16 + 2 * tid + 1 < n := by omega
    have h4 : 16 + 2 * tid < n := by omega
    simp only [pre, boxAssign]
    (repeat' split) <;> absauto2
  case sEdit d k a b =>
    have h1 : d < n := by omega
    have e1 : ¬ 16 + 2 * tid = d := by omega
    have e2 : ¬ 16 + 2 * tid + 1 = d := by omega
    have e3 : ¬ d = 16 + 2 * tid := by omega
    have e4 : ¬ d = 16 + 2 * tid + 1 := by omega
    have h3 : 16 + 2 * tid + 1 < n := by omega
    have h4 : 16 + 2 * tid < n := by omega
    simp only [pre, boxAssign]
    (repeat' split) <;> absauto2
  case sPrintf d x =>
    have h1 : d < n := by omega
    have e1 : ¬ 16 + 2 * tid = d := by omega
    have e2 : ¬ 16 + 2 * tid + 1 = d := by omega
    have e3 : ¬ d = 16 + 2 * tid := by omega
    have e4 : ¬ d = 16 + 2 * tid + 1 := by omega
    have h3 : 16 + 2 * tid + 1 < n := by omega
    have h4 : 16 + 2 * tid < n := by omega
    simp only [pre, boxAssign]
    (repeat' split) <;> absauto2
  case vClear d =>
    have h1 : d < n := by omega
    have e1 : ¬ 16 + 2 * tid = d := by omega
    have e2 : ¬ 16 + 2 * tid + 1 = d := by omega
    have e3 : ¬ d = 16 + 2 * tid := by omega
    have e4 : ¬ d = 16 + 2 * tid + 1 := by omega
    have h3 : 16 + 2 * tid + 1 < n := by omega
    have h4 : 16 + 2 * tid < n := by omega
    simp only [pre, boxAssign]
    (repeat' split) <;> absauto2
  case vSetInt d x =>
    have h1 : d < n := by omega
    have e1 : ¬ 16 + 2 * tid = d := by omega
    have e2 : ¬ 16 + 2 * tid + 1 = d := by omega
    have e3 : ¬ d = 16 + 2 * tid := by omega
    have e4 : ¬ d = 16 + 2 * tid + 1 := by omega
    have h3 : 16 + 2 * tid + 1 < n := by omega
    have h4 : 16 + 2 * tid < n := by omega
    simp only [pre, boxAssign]
    (repeat' split) <;> absauto2
  case vSetStr d bytes =>
    have h1 : d < n := by omega
    have e1 : ¬ 16 + 2 * tid = d := by omega
    have e2 : ¬ 16 + 2 * tid + 1 = d := by omega
    have e3 : ¬ d = 16 + 2 * tid := by omega
    have e4 : ¬ d = 16 + 2 * tid + 1 := by omega
    have h3 : 16 + 2 * tid + 1 < n := by omega
    have h4 : 16 + 2 * tid < n := by omega
    simp only [pre, boxAssign]
    (repeat' split) <;> absauto2
  case vAppStr d bytes =>
    have h1 : d < n := by omega
    have e1 : ¬ 16 + 2 * tid = d := by omega
    have e2 : ¬ 16 + 2 * tid + 1 = d := by omega
    have e3 : ¬ d = 16 + 2 * tid := by omega
    have e4 : ¬ d = 16 + 2 * tid + 1 := by omega
    have h3 : 16 + 2 * tid + 1 < n := by omega
    have h4 : 16 + 2 * tid < n := by omega
    simp only [pre, boxAssign]
    (repeat' split) <;> absauto2
  case vPush d x =>
    have h1 : d < n := by omega
    have e1 : ¬ 16 + 2 * tid = d := by omega
    have e2 : ¬ 16 + 2 * tid + 1 = d := by omega
    have e3 : ¬ d = 16 + 2 * tid := by omega
    have e4 : ¬ d = 16 + 2 * tid + 1 := by omega
    have h3 : 16 + 2 * tid + 1 < n := by omega
    have h4 : 16 + 2 * tid < n := by omega
    simp only [pre, boxAssign]
    (repeat' split) <;> absauto2
  case vSetList d x =>
    have h1 : d < n := by omega
    have e1 : ¬ 16 + 2 * tid = d := by omega
    have e2 : ¬ 16 + 2 * tid + 1 = d := by omega
    have e3 : ¬ d = 16 + 2 * tid := by omega
    have e4 : ¬ d = 16 + 2 * tid + 1 := by omega
    have h3 : 16 + 2 * tid + 1 < n := by omega
    have h4 : 16 + 2 * tid < n := by omega
    simp only [pre, boxAssign]
    (repeat' split) <;> absauto2
  case vPushA d x =>
    have h1 : d < n := by omega
    have e1 : ¬ 16 + 2 * tid = d := by omega
    have e2 : ¬ 16 + 2 * tid + 1 = d := by omega
    have e3 : ¬ d = 16 + 2 * tid := by omega
    have e4 : ¬ d = 16 + 2 * tid + 1 := by omega
    have h3 : 16 + 2 * tid + 1 < n := by omega
    have h4 : 16 + 2 * tid < n := by omega
    simp only [pre, boxAssign]
    (repeat' split) <;> absauto2
  case vSetArr d x =>
    have h1 : d < n := by omega
    have e1 : ¬ 16 + 2 * tid = d := by omega
    have e2 : ¬ 16 + 2 * tid + 1 = d := by omega
    have e3 : ¬ d = 16 + 2 * tid := by omega
    have e4 : ¬ d = 16 + 2 * tid + 1 := by omega
    have h3 : 16 + 2 * tid + 1 < n := by omega
    have h4 : 16 + 2 * tid < n := by omega
    simp only [pre, boxAssign]
    (repeat' split) <;> absauto2
  case vPutM d k x =>
    have h1 : d < n := by omega
    have e1 : ¬ 16 + 2 * tid = d := by omega
    have e2 : ¬ 16 + 2 * tid + 1 = d := by omega
    have e3 : ¬ d = 16 + 2 * tid := by omega
    have e4 : ¬ d = 16 + 2 * tid + 1 := by omega
    have h3 : 16 + 2 * tid + 1 < n := by omega
    have h4 : 16 + 2 * tid < n := by omega
    simp only [pre, boxAssign]
    (repeat' split) <;> absauto2
  case vSetMap d k x =>
    have h1 : d < n := by omega
    have e1 : ¬ 16 + 2 * tid = d := by omega
    have e2 : ¬ 16 + 2 * tid + 1 = d := by omega
    have e3 : ¬ d = 16 + 2 * tid := by omega
    have e4 : ¬ d = 16 + 2 * tid + 1 := by omega
    have h3 : 16 + 2 * tid + 1 < n := by omega
    have h4 : 16 + 2 * tid < n := by omega
    simp only [pre, boxAssign]
    (repeat' split) <;> absauto2
  case xClear d =>
    have h1 : d < n := by omega
    have e1 : ¬ 16 + 2 * tid = d := by omega
    have e2 : ¬ 16 + 2 * tid + 1 = d := by omega
    have e3 : ¬ d = 16 + 2 * tid := by omega
    have e4 : ¬ d = 16 + 2 * tid + 1 := by omega
    have h3 : 16 + 2 * tid + 1 < n := by omega
    have h4 : 16 + 2 * tid < n := by omega
    simp only [pre, boxAssign]
    (repeat' split) <;> absauto2
  case xSetStr d bytes =>
    have h1 : d < n := by omega
    have e1 : ¬ 16 + 2 * tid = d := by omega
    have e2 : ¬ 16 + 2 * tid + 1 = d := by omega
    have e3 : ¬ d = 16 + 2 * tid := by omega
    have e4 : ¬ d = 16 + 2 * tid + 1 := by omega
    have h3 : 16 + 2 * tid + 1 < n := by omega
    have h4 : 16 + 2 * tid < n := by omega
    simp only [pre, boxAssign]
    (repeat' split) <;> absauto2
  case xElem d bytes =>
    have h1 : d < n := by omega
    have e1 : ¬ 16 + 2 * tid = d := by omega
    have e2 : ¬ 16 + 2 * tid + 1 = d := by omega
    have e3 : ¬ d = 16 + 2 * tid := by omega
    have e4 : ¬ d = 16 + 2 * tid + 1 := by omega
    have h3 : 16 + 2 * tid + 1 < n := by omega
    have h4 : 16 + 2 * tid < n := by omega
    simp [okMid, pre, absRun, absStep, A0, Abs.drop, tmpU, tmpT, nVars, *]
    intro s1
    refine ⟨?_, ?_⟩
    · intro hw; simp [hw, okFinal, post, absRun, absStep, Abs.drop, Abs.good, tmpU, tmpT, nVars, rel, shareAssign, boxAssign, cloneAllocFirst, cloneReleaseFirst, *]
    · intro hw
      by_cases hx : blkTag s1 d = some tagXElem <;> simp [hw, hx, okFinal, post, absRun, absStep, Abs.drop, Abs.good, tmpU, tmpT, nVars, rel, shareAssign, boxAssign, cloneAllocFirst, cloneReleaseFirst, *] <;> omega
  case sCopy d s =>
    have h1 : d < n := by omega
    have e1 : ¬ 16 + 2 * tid = d := by omega
    have e2 : ¬ 16 + 2 * tid + 1 = d := by omega
    have e3 : ¬ d = 16 + 2 * tid := by omega
    have e4 : ¬ d = 16 + 2 * tid + 1 := by omega
    have h3 : 16 + 2 * tid + 1 < n := by omega
    have h4 : 16 + 2 * tid < n := by omega
    have h2 : s < n := by omega
    obtain ⟨hmd, hms⟩ := hmi
    have f1 : ¬ 16 + 2 * tid = s := by omega
    have f2 : ¬ 16 + 2 * tid + 1 = s := by omega
    have f3 : ¬ s = 16 + 2 * tid := by omega
    have f4 : ¬ s = 16 + 2 * tid + 1 := by omega
    simp only [pre, boxAssign]
    (repeat' split) <;> absauto2
  case sAssign d s =>
    have h1 : d < n := by omega
    have e1 : ¬ 16 + 2 * tid = d := by omega
    have e2 : ¬ 16 + 2 * tid + 1 = d := by omega
    have e3 : ¬ d = 16 + 2 * tid := by omega
    have e4 : ¬ d = 16 + 2 * tid + 1 := by omega
    have h3 : 16 + 2 * tid + 1 < n := by omega
    have h4 : 16 + 2 * tid < n := by omega
    have h2 : s < n := by omega
    obtain ⟨hmd, hms⟩ := hmi
    have f1 : ¬ 16 + 2 * tid = s := by omega
    have f2 : ¬ 16 + 2 * tid + 1 = s := by omega
    have f3 : ¬ s = 16 + 2 * tid := by omega
    have f4 : ¬ s = 16 + 2 * tid + 1 := by omega
    simp only [pre, boxAssign]
    (repeat' split) <;> absauto2
  case vCopy d s =>
    have h1 : d < n := by omega
    have e1 : ¬ 16 + 2 * tid = d := by omega
    have e2 : ¬ 16 + 2 * tid + 1 = d := by omega
    have e3 : ¬ d = 16 + 2 * tid := by omega
    have e4 : ¬ d = 16 + 2 * tid + 1 := by omega
    have h3 : 16 + 2 * tid + 1 < n := by omega
    have h4 : 16 + 2 * tid < n := by omega
    have h2 : s < n := by omega
    obtain ⟨hmd, hms⟩ := hmi
    have f1 : ¬ 16 + 2 * tid = s := by omega
    have f2 : ¬ 16 + 2 * tid + 1 = s := by omega
    have f3 : ¬ s = 16 + 2 * tid := by omega
    have f4 : ¬ s = 16 + 2 * tid + 1 := by omega
    simp only [pre, boxAssign]
    (repeat' split) <;> absauto2
  case vAssign d s =>
    have h1 : d < n := by omega
    have e1 : ¬ 16 + 2 * tid = d := by omega
    have e2 : ¬ 16 + 2 * tid + 1 = d := by omega
    have e3 : ¬ d = 16 + 2 * tid := by omega
    have e4 : ¬ d = 16 + 2 * tid + 1 := by omega
    have h3 : 16 + 2 * tid + 1 < n := by omega
    have h4 : 16 + 2 * tid < n := by omega
    have h2 : s < n := by omega
    obtain ⟨hmd, hms⟩ := hmi
    have f1 : ¬ 16 + 2 * tid = s := by omega
    have f2 : ¬ 16 + 2 * tid + 1 = s := by omega
    have f3 : ¬ s = 16 + 2 * tid := by omega
    have f4 : ¬ s = 16 + 2 * tid + 1 := by omega
    simp only [pre, boxAssign]
    (repeat' split) <;> absauto2
  case vSwap d s =>
    have h1 : d < n := by omega
    have e1 : ¬ 16 + 2 * tid = d := by omega
    have e2 : ¬ 16 + 2 * tid + 1 = d := by omega
    have e3 : ¬ d = 16 + 2 * tid := by omega
    have e4 : ¬ d = 16 + 2 * tid + 1 := by omega
    have h3 : 16 + 2 * tid + 1 < n := by omega
    have h4 : 16 + 2 * tid < n := by omega
    have h2 : s < n := by omega
    obtain ⟨hmd, hms⟩ := hmi
    have f1 : ¬ 16 + 2 * tid = s := by omega
    have f2 : ¬ 16 + 2 * tid + 1 = s := by omega
    have f3 : ¬ s = 16 + 2 * tid := by omega
    have f4 : ¬ s = 16 + 2 * tid + 1 := by omega
    have post_ok : ∀ (E : List Nat) (s1 : St), 16 + 2 * tid + 1 ∈ E →
        okFinal tid (absRun n { ph := .idle, empty := E, mine := mine } (post s1 tid (.vSwap d s))) := by
      intro E s1 hE
      by_cases hsd : s = d <;> cases hd' : s1.slots d <;> cases hu' : s1.slots (16 + 2 * tid) <;>
        simp [hsd, hd', hu', hE, okFinal, post, absRun, absStep, Abs.drop, Abs.good, tmpU, tmpT, nVars, rel, shareAssign, boxAssign, cloneAllocFirst, cloneReleaseFirst, *] <;> (try omega)
    simp only [pre]
    (repeat' split) <;> simp [okMid, absRun, absStep, A0, Abs.drop, tmpU, tmpT, nVars, *] <;> intro s1 _ <;>
      exact post_ok _ s1 (by simp [*])
  case xCopy d s =>
    have h1 : d < n := by omega
    have e1 : ¬ 16 + 2 * tid = d := by omega
    have e2 : ¬ 16 + 2 * tid + 1 = d := by omega
    have e3 : ¬ d = 16 + 2 * tid := by omega
    have e4 : ¬ d = 16 + 2 * tid + 1 := by omega
    have h3 : 16 + 2 * tid + 1 < n := by omega
    have h4 : 16 + 2 * tid < n := by omega
    have h2 : s < n := by omega
    obtain ⟨hmd, hms⟩ := hmi
    have f1 : ¬ 16 + 2 * tid = s := by omega
    have f2 : ¬ 16 + 2 * tid + 1 = s := by omega
    have f3 : ¬ s = 16 + 2 * tid := by omega
    have f4 : ¬ s = 16 + 2 * tid + 1 := by omega
    simp only [pre, boxAssign]
    (repeat' split) <;> absauto2
  case xAssign d s =>
    have h1 : d < n := by omega
    have e1 : ¬ 16 + 2 * tid = d := by omega
    have e2 : ¬ 16 + 2 * tid + 1 = d := by omega
    have e3 : ¬ d = 16 + 2 * tid := by omega
    have e4 : ¬ d = 16 + 2 * tid + 1 := by omega
    have h3 : 16 + 2 * tid + 1 < n := by omega
    have h4 : 16 + 2 * tid < n := by omega
    have h2 : s < n := by omega
    obtain ⟨hmd, hms⟩ := hmi
    have f1 : ¬ 16 + 2 * tid = s := by omega
    have f2 : ¬ 16 + 2 * tid + 1 = s := by omega
    have f3 : ¬ s = 16 + 2 * tid := by omega
    have f4 : ¬ s = 16 + 2 * tid + 1 := by omega
    simp only [pre, boxAssign]
    (repeat' split) <;> absauto2
  case pSwap d s =>
    have h1 : d < n := by omega
    have e1 : ¬ 16 + 2 * tid = d := by omega
    have e2 : ¬ 16 + 2 * tid + 1 = d := by omega
    have e3 : ¬ d = 16 + 2 * tid := by omega
    have e4 : ¬ d = 16 + 2 * tid + 1 := by omega
    have h3 : 16 + 2 * tid + 1 < n := by omega
    have h4 : 16 + 2 * tid < n := by omega
    have h2 : s < n := by omega
    obtain ⟨hmd, hms⟩ := hmi
    have f1 : ¬ 16 + 2 * tid = s := by omega
    have f2 : ¬ 16 + 2 * tid + 1 = s := by omega
    have f3 : ¬ s = 16 + 2 * tid := by omega
    have f4 : ¬ s = 16 + 2 * tid + 1 := by omega
    simp only [pre, boxAssign]
    (repeat' split) <;> absauto2
  case gNew d tag inl val cap =>
    have h1 : d < n := by omega
    have e1 : ¬ 16 + 2 * tid = d := by omega
    have e2 : ¬ 16 + 2 * tid + 1 = d := by omega
    have e3 : ¬ d = 16 + 2 * tid := by omega
    have e4 : ¬ d = 16 + 2 * tid + 1 := by omega
    have h3 : 16 + 2 * tid + 1 < n := by omega
    have h4 : 16 + 2 * tid < n := by omega
    simp only [pre, boxAssign]
    (repeat' split) <;> absauto2
  case gEdit d skip nv =>
    have h1 : d < n := by omega
    have e1 : ¬ 16 + 2 * tid = d := by omega
    have e2 : ¬ 16 + 2 * tid + 1 = d := by omega
    have e3 : ¬ d = 16 + 2 * tid := by omega
    have e4 : ¬ d = 16 + 2 * tid + 1 := by omega
    have h3 : 16 + 2 * tid + 1 < n := by omega
    have h4 : 16 + 2 * tid < n := by omega
    simp only [pre, boxAssign]
    (repeat' split) <;> absauto2

theorem conc_weaken {s : St} {tid : Nat} {A : Abs} {mine : Nat → Bool} (hc : Conc s tid A) (hg : A.good tid)
    (hm : A.mine = mine) : Conc s tid (A0 tid mine) := by
  subst hm
  obtain ⟨h1, h2, h3⟩ := hg
  refine ⟨hc.inv, hc.own, hc.low, ?_, ?_⟩
  · have := hc.ph; rw [h1] at this; exact this
  · intro x hx
    simp only [A0, List.mem_cons, List.not_mem_nil, or_false] at hx
    rcases hx with hx | hx <;> subst hx
    · exact hc.emp _ h2
    · exact hc.emp _ h3

/-- a String / Variant / Xml::Variant call (and Ptr::swap) on variables of a thread that owns all slots, is
    idle and has empty scratch slots is never rejected, and it re-establishes exactly that situation -/
theorem apiStep_total_of_okMid {s : St} {tid : Nat} {op : ApiOp} {mine : Nat → Bool} (hc : Conc s tid (A0 tid mine))
    (ok : okMid s.n tid op (absRun s.n (A0 tid mine) (pre s tid op))) :
    ∃ s', apiStep s tid op = some s' ∧ Conc s' tid (A0 tid mine) ∧ s'.n = s.n := by
  cases hA : absRun s.n (A0 tid mine) (pre s tid op) with
  | none => rw [hA] at ok; exact absurd ok (by simp [okMid])
  | some A1 =>
    rw [hA] at ok
    obtain ⟨hne, hpost⟩ := ok
    obtain ⟨s1, hr1, hc1, hn1⟩ := absRun_sound _ hc hA
    have hm1 : A1.mine = mine := absRun_mine _ hA
    have fin : ∀ (A1' : Abs), A1'.mine = mine → Conc s1 tid A1' → okFinal tid (absRun s.n A1' (post s1 tid op)) →
        ∃ s', apiStep s tid op = some s' ∧ Conc s' tid (A0 tid mine) ∧ s'.n = s.n := by
      intro A1' hm1' hc1' hfin
      cases hB : absRun s.n A1' (post s1 tid op) with
      | none => rw [hB] at hfin; exact absurd hfin (by simp [okFinal])
      | some A2 =>
        rw [hB] at hfin
        rw [← hn1] at hB
        obtain ⟨s2, hr2, hc2, hn2⟩ := absRun_sound _ hc1' hB
        exact ⟨s2, by simp only [apiStep, hr1]; exact hr2, conc_weaken hc2 hfin (by rw [absRun_mine _ hB, hm1']), by rw [hn2, hn1]⟩
    by_cases hw : isWriting s1 tid = true
    · have hpc : ∃ t b, s1.pc tid = .writing t b := by
        simp only [isWriting] at hw
        cases hp : s1.pc tid with
        | writing t b => exact ⟨t, b, rfl⟩
        | idle => rw [hp] at hw; cases hw
        | freeing b => rw [hp] at hw; cases hw
      obtain ⟨t, b, hpc⟩ := hpc
      have hph : A1.ph = .mayWrite := by
        have := hc1.ph
        cases hA1 : A1.ph with
        | idle => rw [hA1] at this; simp only [phOk] at this; rw [hpc] at this; cases this
        | mayFree => exact absurd hA1 hne
        | mayWrite => rfl
      refine fin { A1 with ph := .mayWrite } hm1 ⟨hc1.inv, hc1.own, hc1.low, Or.inr ⟨t, b, hpc⟩, hc1.emp⟩ ((hpost s1).1 hph hw)
    · have hw' : isWriting s1 tid = false := by simpa using hw
      have hidle : s1.pc tid = .idle := by
        have := hc1.ph
        cases hA1 : A1.ph with
        | idle => rw [hA1] at this; exact this
        | mayFree => exact absurd hA1 hne
        | mayWrite =>
          rw [hA1] at this
          rcases this with h | ⟨t, b, h⟩
          · exact h
          · simp [isWriting, h] at hw'
      refine fin { A1 with ph := .idle } hm1 ⟨hc1.inv, hc1.own, hc1.low, hidle, hc1.emp⟩ ((hpost s1).2 hw')

theorem apiStep_total {s : St} {tid : Nat} {op : ApiOp} {mine : Nat → Bool} (hc : Conc s tid (A0 tid mine))
    (hn : nSlots ≤ s.n) (htid : tid < nThreads) (hf : flatOp op = true) (hi : idxOk op) (hmi : idxMine mine op)
    (hmU : mine (tmpU tid) = true) (hmT : mine (tmpT tid) = true) :
    ∃ s', apiStep s tid op = some s' ∧ Conc s' tid (A0 tid mine) ∧ s'.n = s.n :=
  apiStep_total_of_okMid hc (flat_lists_ok s.n tid op mine hn htid hf hi hmi hmU hmT s)

theorem conc_init (n : Nat) : Conc (init n) 0 (A0 0 mineAll) := by
  refine ⟨inv_init n, fun _ _ => rfl, ?_, rfl, ?_⟩
  · intro x hx; simpa [A0, mineAll] using hx
  · intro x _; rfl

theorem apiRun_total_aux {tid : Nat} {mine : Nat → Bool} (ops : List ApiOp) {s : St} (hc : Conc s tid (A0 tid mine))
    (hn : nSlots ≤ s.n) (htid : tid < nThreads) (hmU : mine (tmpU tid) = true) (hmT : mine (tmpT tid) = true)
    (hops : ∀ op, op ∈ ops → flatOp op = true ∧ idxOk op ∧ idxMine mine op) :
    ∃ s', apiRun s tid ops = some s' ∧ Conc s' tid (A0 tid mine) := by
  induction ops generalizing s with
  | nil => exact ⟨s, rfl, hc⟩
  | cons op r ih =>
    obtain ⟨hf, hi, hmi⟩ := hops op (List.mem_cons_self ..)
    obtain ⟨s1, h1, hc1, hn1⟩ := apiStep_total hc hn htid hf hi hmi hmU hmT
    obtain ⟨s', h', hc'⟩ := ih hc1 (by rw [hn1]; exact hn) (fun o ho => hops o (List.mem_cons_of_mem _ ho))
    exact ⟨s', by simp only [apiRun, h1]; exact h', hc'⟩

end Nstd.Rc
